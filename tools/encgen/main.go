package main

// encgen: translate the SerializeTo methods of pkg/ipmi and pkg/dcmi (and the helpers they call) from the Go source
// (go/ast + go/types) into Lean 4 definitions over an explicit model of gopacket's SerializeBuffer in which the bytes
// handed back by PrependBytes / AppendBytes have INDETERMINATE content (Bmc/Basic/GoEnc.lean).
//
// usage: encgen <repo-dir> > lean/Bmc/Gen/Enc.lean
//
// The translator never guesses: a statement or expression outside its language makes it give up on the whole
// method, with the reason recorded in the output (`gaveUp`). External calls kept as parameters (crypto/rand, crypto/cipher)
// and views of the buffer that are written through: ext.go.

import (
	"fmt"
	"go/ast"
	"go/types"
	"os"
	"sort"
	"strings"

	"golang.org/x/tools/go/packages"
)

type giveUp struct{ msg string }

type funcSrc struct {
	decl *ast.FuncDecl
	pkg  *packages.Package
}

// gen is the global state of one run
type gen struct {
	funcs map[*types.Func]funcSrc // every function declaration of the loaded packages (incl. dependencies)

	modPkgs    []*packages.Package // the packages of the module that were loaded, by path
	blockSizes map[*types.Var]int  // cipher.Block fields shown to hold an AES cipher -> aes.BlockSize

	// filled while translating (reset between the two rounds)
	structUse  map[*types.Named]map[string]bool // Go struct type -> Go field names used
	structSeen []*types.Named                   // in order of first use
	defs       map[string]string                // Lean def name -> text (callees, pure helpers)
	defOrder   []string
	inProgress map[string]bool
	usesOpts   bool
	opaqueList []string // layer: uninterpreted helper
}

func (g *gen) reset() {
	g.structUse = map[*types.Named]map[string]bool{}
	g.structSeen = nil
	g.defs = map[string]string{}
	g.defOrder = nil
	g.inProgress = map[string]bool{}
	g.opaqueList = nil
}

func (g *gen) useField(t *types.Named, field string) {
	m := g.structUse[t]
	if m == nil {
		m = map[string]bool{}
		g.structUse[t] = m
		g.structSeen = append(g.structSeen, t)
	}
	if field != "" {
		m[field] = true
	}
}

type layer struct {
	pkgShort string
	typ      *types.Named
	fn       *types.Func
	src      funcSrc
}

func (l layer) name() string { return l.pkgShort + "." + l.typ.Obj().Name() }

func main() {
	dir := "/repo"
	if len(os.Args) > 1 {
		dir = os.Args[1]
	}
	cfg := &packages.Config{Mode: packages.LoadAllSyntax, Dir: dir, Env: append(os.Environ(), "GOFLAGS=-mod=mod", "GOPROXY=off")}
	pkgs, err := packages.Load(cfg, "./pkg/ipmi", "./pkg/dcmi")
	if err != nil || packages.PrintErrors(pkgs) > 0 {
		fmt.Fprintln(os.Stderr, "encgen: cannot load packages", err)
		os.Exit(2)
	}
	g := &gen{funcs: map[*types.Func]funcSrc{}, blockSizes: map[*types.Var]int{}}
	packages.Visit(pkgs, nil, func(p *packages.Package) {
		if !strings.HasPrefix(p.PkgPath, "github.com/gebn/bmc") {
			return
		}
		g.modPkgs = append(g.modPkgs, p)
		for _, f := range p.Syntax {
			for _, d := range f.Decls {
				if fd, ok := d.(*ast.FuncDecl); ok && fd.Body != nil {
					if obj, ok := p.TypesInfo.Defs[fd.Name].(*types.Func); ok {
						g.funcs[obj] = funcSrc{fd, p}
					}
				}
			}
		}
	})

	sort.Slice(g.modPkgs, func(i, j int) bool { return g.modPkgs[i].PkgPath < g.modPkgs[j].PkgPath })

	// the layers: every `func (x *T) SerializeTo(b gopacket.SerializeBuffer, opts gopacket.SerializeOptions) error`
	var layers []layer
	for fn, src := range g.funcs {
		if fn.Name() != "SerializeTo" || src.decl.Recv == nil {
			continue
		}
		path := src.pkg.PkgPath
		if path != "github.com/gebn/bmc/pkg/ipmi" && path != "github.com/gebn/bmc/pkg/dcmi" {
			continue
		}
		if strings.HasSuffix(src.pkg.Fset.Position(src.decl.Pos()).Filename, "_test.go") {
			continue
		}
		sig := fn.Type().(*types.Signature)
		ptr, ok := sig.Recv().Type().(*types.Pointer)
		if !ok || sig.Params().Len() != 2 || sig.Results().Len() != 1 {
			continue
		}
		named, ok := ptr.Elem().(*types.Named)
		if !ok {
			continue
		}
		layers = append(layers, layer{path[strings.LastIndex(path, "/")+1:], named, fn, src})
	}
	sort.Slice(layers, func(i, j int) bool { return layers[i].name() < layers[j].name() })

	// round 1: which layers are inside the language
	type outcome struct {
		text   string
		reason string
	}
	res := map[string]outcome{}
	for _, l := range layers {
		g.reset()
		text, reason := g.translateLayer(l)
		res[l.name()] = outcome{text, reason}
	}
	// round 2: only the translatable ones contribute to the shared structures and definitions
	g.reset()
	var bodies []string
	var translated, gaveUpList, comments []string
	for _, l := range layers {
		if res[l.name()].reason != "" {
			gaveUpList = append(gaveUpList, l.name())
			comments = append(comments, fmt.Sprintf("-- encgen: gave up on %s: %s", l.name(), res[l.name()].reason))
			continue
		}
		text, reason := g.translateLayer(l)
		if reason != "" { // cannot happen: round 1 succeeded
			fmt.Fprintln(os.Stderr, "encgen: internal: second round failed for", l.name(), reason)
			os.Exit(2)
		}
		bodies = append(bodies, text)
		translated = append(translated, l.name())
	}

	var out strings.Builder
	out.WriteString("-- GENERATED by encgen from the Go sources; do not edit.\n")
	out.WriteString("-- `stale` is the content of the byte arrays PrependBytes / AppendBytes hand back (indeterminate: whatever an earlier\n")
	out.WriteString("-- packet left in the reused buffer), consumed allocation by allocation; `buf` is what the buffer already holds.\n")
	out.WriteString("-- Go `int` arithmetic is translated into ℤ / ℕ (no wrap-around at 2^63); unsigned fixed-width arithmetic into\n")
	out.WriteString("-- UInt8/UInt16/UInt32/UInt64 (wrapping like Go; `uint` is 64 bits); shift counts are constants below the width.\n")
	out.WriteString("-- A helper the translator cannot translate (floating point, interface calls) is kept as an UNINTERPRETED function\n")
	out.WriteString("-- parameter of the layer's definition where it can only compute a value from its arguments (see `uninterpreted`):\n")
	out.WriteString("-- the equality theorem then holds for EVERY such function, in particular for the real one.\n")
	out.WriteString("-- Calls into crypto/rand and crypto/cipher are PARAMETERS of the layer's definition too (the bytes drawn; CBC encryption as a\n")
	out.WriteString("-- function of the IV and of what the slice holds at the time of the call, applied in place). A local holding a slice of the\n")
	out.WriteString("-- buffer aliases it only until the next PrependBytes / AppendBytes: used later, the translator gives up on the method.\n")
	out.WriteString("import Bmc.Basic.GoEnc\nnamespace Bmc.Gen.Enc\nopen Bmc Bmc.GoEnc\n\n")
	for _, c := range comments {
		out.WriteString(c + "\n")
	}
	out.WriteString("\n")
	out.WriteString(g.structDecls())
	for _, n := range g.defOrder {
		out.WriteString(g.defs[n])
		out.WriteString("\n")
	}
	for _, b := range bodies {
		out.WriteString(b)
		out.WriteString("\n")
	}
	out.WriteString("def translated : List String := [" + quoteJoin(translated) + "]\n")
	out.WriteString("def gaveUp : List String := [" + quoteJoin(gaveUpList) + "]\n")
	out.WriteString("/-- the parameters of the layers' definitions (layer: parameter): helpers kept as uninterpreted functions, and the\n    external calls (crypto/rand, crypto/cipher) a definition is parametric in -/\n")
	out.WriteString("def uninterpreted : List String := [" + quoteJoin(g.opaqueList) + "]\n")
	out.WriteString("\nend Bmc.Gen.Enc\n")
	fmt.Print(out.String())
}

func quoteJoin(l []string) string {
	q := make([]string, len(l))
	for i, s := range l {
		q[i] = fmt.Sprintf("%q", s)
	}
	return strings.Join(q, ", ")
}

// translateLayer returns the Lean text of `T.serializeTo`, or the reason for giving up
func (g *gen) translateLayer(l layer) (text string, reason string) {
	defer func() {
		if r := recover(); r != nil {
			if gu, ok := r.(giveUp); ok {
				text, reason = "", gu.msg
				return
			}
			panic(r)
		}
	}()
	g.useField(l.typ, "")
	f := g.newFn(l.src, l.typ)
	name := leanTypeName(l.typ) + ".serializeTo"
	pos := l.src.pkg.Fset.Position(l.src.decl.Pos())
	var b strings.Builder
	extra := f.bindParams(l.src.decl.Type.Params.List)
	if len(extra) != 0 || f.bufObj == nil {
		panic(giveUp{"unexpected parameter list"})
	}
	f.mutRecv = f.assignsReceiver(l.src.decl.Body)
	rt := "Bytes"
	if f.mutRecv {
		rt = "(" + leanTypeName(l.typ) + " × Bytes)"
	}
	opts := ""
	if f.optsObj != nil && f.usesObj(l.src.decl.Body, f.optsObj) {
		opts = " (opts : SerializeOptions)"
	}
	f.results = nil
	f.block(l.src.decl.Body.List, 1, nil)
	op := ""
	for _, o := range f.opaques {
		fmt.Fprintf(&b, "-- encgen: %s: `%s` stands for %s\n", l.name(), o.name, o.what)
		op += fmt.Sprintf(" (%s : %s)", o.name, o.typ)
		g.opaqueList = append(g.opaqueList, l.name()+": "+o.name)
	}
	fmt.Fprintf(&b, "/-- translated from `(*%s.%s).SerializeTo` (%s) -/\n", l.pkgShort, l.typ.Obj().Name(), shortFile(pos.Filename))
	fmt.Fprintf(&b, "def %s%s (r : %s)%s (stale : Bytes) (buf : Bytes) : R %s := do\n", name, op, leanTypeName(l.typ), opts, rt)
	b.WriteString(strings.Join(f.lines, "\n"))
	b.WriteString("\n")
	return b.String(), ""
}

func shortFile(p string) string {
	if i := strings.Index(p, "/pkg/"); i >= 0 {
		return p[i+1:]
	}
	if i := strings.Index(p, "/internal/"); i >= 0 {
		return p[i+1:]
	}
	return p[strings.LastIndex(p, "/")+1:]
}

// ---- structures -----------------------------------------------------------------------------------------------

func leanTypeName(t *types.Named) string { return t.Obj().Name() }

var leanReserved = map[string]bool{"type": true, "end": true, "instance": true, "from": true, "at": true, "in": true, "then": true,
	"else": true, "do": true, "open": true, "private": true, "local": true, "prefix": true, "structure": true, "class": true,
	"where": true, "with": true, "if": true, "match": true, "fun": true, "let": true, "have": true, "show": true, "by": true,
	"of": true, "deriving": true, "mutual": true, "import": true, "export": true, "namespace": true, "section": true,
	"variable": true, "universe": true, "theorem": true, "def": true, "example": true, "inductive": true, "abbrev": true,
	"macro": true, "syntax": true, "notation": true, "infix": true, "attribute": true, "return": true, "for": true, "mut": true,
	"r": true, "prev": true, "buf": true, "stale": true, "opts": true}

// leanField: Go field name -> Lean field name (leading run of capitals lowered: ID -> id, OEMData -> oemData)
func leanField(goName string) string {
	rs := []rune(goName)
	n := 0
	for n < len(rs) && rs[n] >= 'A' && rs[n] <= 'Z' {
		n++
	}
	k := n
	if n > 1 && n < len(rs) && rs[n] >= 'a' && rs[n] <= 'z' {
		k = n - 1
	}
	if n == 0 {
		k = 0
	}
	s := strings.ToLower(string(rs[:k])) + string(rs[k:])
	if leanReserved[s] {
		s += "_"
	}
	return s
}

// fieldType: Lean type and zero value of a struct field of Go type t
func (g *gen) fieldType(t types.Type) (string, string, bool) {
	switch u := t.Underlying().(type) {
	case *types.Basic:
		switch u.Kind() {
		case types.Uint8:
			return "UInt8", "0", true
		case types.Uint16:
			return "UInt16", "0", true
		case types.Uint32:
			return "UInt32", "0", true
		case types.Uint, types.Uint64:
			return "UInt64", "0", true
		case types.Bool:
			return "Bool", "false", true
		case types.Int, types.Int64:
			return "Int", "0", true
		case types.String:
			return "Bytes", "[]", true
		}
	case *types.Slice:
		if isByte(u.Elem()) {
			return "Bytes", "[]", true
		}
	case *types.Array:
		if isByte(u.Elem()) {
			return "Bytes", fmt.Sprintf("List.replicate %d 0", u.Len()), true
		}
	case *types.Struct:
		if n, ok := t.(*types.Named); ok && !isBaseLayer(n) {
			return leanTypeName(n), "{}", true
		}
	}
	return "", "", false
}

func isByte(t types.Type) bool {
	b, ok := t.Underlying().(*types.Basic)
	return ok && b.Kind() == types.Uint8
}

func isBaseLayer(t types.Type) bool {
	n, ok := t.(*types.Named)
	return ok && n.Obj().Name() == "BaseLayer" && n.Obj().Pkg() != nil && strings.HasSuffix(n.Obj().Pkg().Path(), "gopacket/layers")
}

// structDecls: the Lean structures of every Go struct used, nested ones first; fields in Go declaration order
func (g *gen) structDecls() string {
	var order []*types.Named
	done := map[*types.Named]bool{}
	var visit func(t *types.Named)
	visit = func(t *types.Named) {
		if done[t] {
			return
		}
		done[t] = true
		st := t.Underlying().(*types.Struct)
		for i := 0; i < st.NumFields(); i++ {
			fl := st.Field(i)
			if g.structUse[t][fl.Name()] {
				if n, ok := fl.Type().(*types.Named); ok {
					if _, isStruct := n.Underlying().(*types.Struct); isStruct && !isBaseLayer(n) {
						g.useField(n, "")
						visit(n)
					}
				}
			}
		}
		order = append(order, t)
	}
	seen := append([]*types.Named{}, g.structSeen...)
	sort.SliceStable(seen, func(i, j int) bool {
		a, b := seen[i].Obj(), seen[j].Obj()
		if a.Pkg().Path() != b.Pkg().Path() {
			return a.Pkg().Path() > b.Pkg().Path() // ipmi before dcmi
		}
		return a.Name() < b.Name()
	})
	for _, t := range seen {
		if isBaseLayer(t) {
			continue
		}
		visit(t)
	}
	var b strings.Builder
	for _, t := range order {
		st := t.Underlying().(*types.Struct)
		fmt.Fprintf(&b, "/-- the fields of `%s.%s` its serialiser reads or assigns -/\nstructure %s where\n", t.Obj().Pkg().Name(), t.Obj().Name(), leanTypeName(t))
		n := 0
		for i := 0; i < st.NumFields(); i++ {
			fl := st.Field(i)
			if !g.structUse[t][fl.Name()] {
				continue
			}
			lt, zero, ok := g.fieldType(fl.Type())
			if !ok {
				panic(fmt.Sprintf("internal: field %s.%s has no Lean type", t.Obj().Name(), fl.Name()))
			}
			fmt.Fprintf(&b, "  %s : %s := %s\n", leanField(fl.Name()), lt, zero)
			n++
		}
		if n == 0 {
			b.WriteString("  mk ::\n")
		}
		b.WriteString("  deriving Repr, DecidableEq\n\n")
	}
	return b.String()
}
