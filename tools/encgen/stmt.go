package main

import (
	"fmt"
	"go/ast"
	"go/token"
	"go/types"
	"strings"
)

// finFn emits what happens when control falls off the end of a block
type finFn func()

func terminates(stmts []ast.Stmt) bool {
	if len(stmts) == 0 {
		return false
	}
	switch s := stmts[len(stmts)-1].(type) {
	case *ast.ReturnStmt:
		return true
	case *ast.BlockStmt:
		return terminates(s.List)
	case *ast.IfStmt:
		if s.Else == nil {
			return false
		}
		return terminates(s.Body.List) && terminates([]ast.Stmt{s.Else})
	case *ast.SwitchStmt:
		hasDefault := false
		for _, c := range s.Body.List {
			cc := c.(*ast.CaseClause)
			if cc.List == nil {
				hasDefault = true
			}
			if !terminates(cc.Body) {
				return false
			}
		}
		return hasDefault
	}
	return false
}

func isNilIdent(e ast.Expr) bool {
	id, ok := e.(*ast.Ident)
	return ok && id.Name == "nil"
}

// isErrNotNil: `err != nil` for the given object
func (f *fn) isErrNotNil(e ast.Expr, errObj types.Object) bool {
	b, ok := e.(*ast.BinaryExpr)
	if !ok || b.Op != token.NEQ || !isNilIdent(b.Y) {
		return false
	}
	id, ok := b.X.(*ast.Ident)
	return ok && errObj != nil && f.info.Uses[id] == errObj
}

// isPropagate: the block is `return [zero…,] err`
func (f *fn) isPropagate(body *ast.BlockStmt, errObj types.Object) bool {
	if len(body.List) != 1 {
		return false
	}
	ret, ok := body.List[0].(*ast.ReturnStmt)
	if !ok || len(ret.Results) == 0 {
		return false
	}
	id, ok := ret.Results[len(ret.Results)-1].(*ast.Ident)
	return ok && f.info.Uses[id] == errObj
}

func (f *fn) objOf(id *ast.Ident) types.Object {
	if obj := f.info.Defs[id]; obj != nil {
		return obj
	}
	return f.info.Uses[id]
}

func (f *fn) block(stmts []ast.Stmt, ind int, fin finFn) {
	for i := 0; i < len(stmts); i++ {
		f.ind = ind
		s := stmts[i]
		rest := stmts[i+1:]
		cont := func() { f.block(rest, ind, fin) }
		switch s := s.(type) {
		case *ast.BlockStmt:
			f.block(append(append([]ast.Stmt{}, s.List...), rest...), ind, fin)
			return
		case *ast.ExprStmt:
			f.exprStmt(s)
		case *ast.ReturnStmt:
			f.ret(s)
			return
		case *ast.IncDecStmt:
			id, ok := s.X.(*ast.Ident)
			if !ok {
				f.fail(s, "++/-- on a non-variable")
			}
			op := "+="
			if s.Tok == token.DEC {
				op = "-="
			}
			f.localAssign(s, id, op, nil)
		case *ast.AssignStmt:
			// `x, err := b.PrependBytes(n)` / `b.AppendBytes(n)` followed by `if err != nil { return err }`
			if len(s.Rhs) == 1 && len(s.Lhs) == 2 {
				if call, ok := s.Rhs[0].(*ast.CallExpr); ok {
					if name, isBuf := f.bufMethod(call); isBuf && (name == "PrependBytes" || name == "AppendBytes") {
						errId, _ := s.Lhs[1].(*ast.Ident)
						var errObj types.Object
						if errId != nil {
							errObj = f.objOf(errId)
						}
						if len(rest) == 0 {
							f.fail(s, "%s whose error is not propagated at once", name)
						}
						next, ok := rest[0].(*ast.IfStmt)
						if !ok || next.Init != nil || next.Else != nil || !f.isErrNotNil(next.Cond, errObj) || !f.isPropagate(next.Body, errObj) {
							f.fail(s, "%s whose error is not propagated at once", name)
						}
						f.allocate(s, call, name == "AppendBytes")
						i++
						continue
					}
				}
			}
			// `mode := cipher.NewCBCEncrypter(a.cipher, iv)` followed at once by `mode.CryptBlocks(v, v)`
			if len(s.Rhs) == 1 {
				if call, ok := s.Rhs[0].(*ast.CallExpr); ok && fullName(f.calleeOf(call)) == "crypto/cipher.NewCBCEncrypter" {
					f.cbcEncryptInPlace(s, call, rest)
					i++
					continue
				}
			}
			f.assign(s)
		case *ast.IfStmt:
			f.ifStmt(s, ind, cont)
			return
		case *ast.SwitchStmt:
			f.switchStmt(s, ind, cont)
			return
		case *ast.DeclStmt:
			f.fail(s, "declaration statement")
		case *ast.ForStmt:
			f.forStmt(s, ind)
		case *ast.RangeStmt:
			f.fail(s, "range loop")
		default:
			f.fail(s, "statement of unsupported form")
		}
	}
	f.ind = ind
	if fin == nil {
		panic(giveUp{"control reaches the end of a block that must return"})
	}
	fin()
}

// ---- the serialize buffer -------------------------------------------------------------------------------------

// commit: the live window becomes part of `buf`; its variable must not be used any more (the next PrependBytes /
// AppendBytes may move the buffer's contents to a new array)
func (f *fn) commit(why string) {
	f.killViews(why)
	if f.win == nil {
		return
	}
	if f.win.append {
		f.bind("buf", "Bytes", fmt.Sprintf("buf ++ %s", f.win.name), false)
	} else {
		f.bind("buf", "Bytes", fmt.Sprintf("%s ++ buf", f.win.name), false)
	}
	f.dead[f.win.obj] = why
	delete(f.vars, f.win.obj)
	f.win = nil
}

// allocate: `x, err := b.PrependBytes(n)` / `b.AppendBytes(n)`: n bytes of indeterminate content (a negative n panics;
// gopacket's buffer never returns an error)
func (f *fn) allocate(s *ast.AssignStmt, call *ast.CallExpr, isAppend bool) {
	if f.bufObj == nil || len(call.Args) != 1 {
		f.fail(s, "buffer call form")
	}
	id, ok := s.Lhs[0].(*ast.Ident)
	if !ok || id.Name == "_" {
		f.fail(s, "result of PrependBytes / AppendBytes not stored in a variable")
	}
	if f.inLoop > 0 {
		f.fail(s, "PrependBytes / AppendBytes inside a loop")
	}
	n, c := f.natIndex(call.Args[0])
	f.commit("after a later PrependBytes / AppendBytes (the buffer may have been reallocated)")
	obj := f.objOf(id)
	name := f.nameOf(obj)
	f.bind(name, "Bytes", fmt.Sprintf("GoEnc.fresh stale %s", paren(n)), false)
	f.bind("stale", "Bytes", fmt.Sprintf("stale.drop %s", paren(n)), false)
	f.vars[obj] = Val{S: name, K: KWin, N: c}
	delete(f.dead, obj)
	f.win = &window{obj: obj, name: name, append: isAppend}
	f.epoch++
}

// winTarget: e is `w`, `w[lo:hi]`, `w[lo:]`, `w[:hi]` for the live window w; returns lo, hi (Nat terms)
func (f *fn) winTarget(n ast.Node, e ast.Expr) (lo, hi string) {
	var base ast.Expr = e
	var se *ast.SliceExpr
	if x, ok := e.(*ast.SliceExpr); ok {
		se, base = x, x.X
	}
	id, ok := base.(*ast.Ident)
	if !ok {
		f.fail(n, "destination that is not (a slice of) the window")
	}
	v := f.expr(id)
	if v.K != KWin || f.win == nil || f.info.Uses[id] != f.win.obj {
		f.fail(n, "destination that is not (a slice of) the live window")
	}
	if se == nil {
		return "0", fmt.Sprintf("%s.length", v.S)
	}
	lo, hi, _ = f.sliceBounds(se, Val{S: v.S, K: KWin, N: -1})
	return lo, hi
}

func (f *fn) wroteWindow() {
	f.mods[f.win.name] = true
	f.epoch++
}

func (f *fn) exprStmt(s *ast.ExprStmt) {
	call, ok := s.X.(*ast.CallExpr)
	if !ok {
		f.fail(s, "expression statement")
	}
	if id, ok := call.Fun.(*ast.Ident); ok && id.Name == "copy" {
		if _, isBuiltin := f.info.Uses[id].(*types.Builtin); isBuiltin {
			// copy(w[lo:hi], src): min(hi-lo, len(src)) bytes
			src := f.expr(call.Args[1])
			if src.K != KBytes {
				f.fail(call, "copy source")
			}
			lo, hi := f.winTarget(call, call.Args[0])
			f.w("let %s ← GoEnc.copyInto %s %s %s %s", f.win.name, f.win.name, paren(lo), paren(hi), paren(src.S))
			f.wroteWindow()
			return
		}
	}
	switch fullName(f.calleeOf(call)) {
	case "(encoding/binary.littleEndian).PutUint16", "(encoding/binary.littleEndian).PutUint32":
		fnName, k := "put16", KU16
		if strings.HasSuffix(fullName(f.calleeOf(call)), "32") {
			fnName, k = "put32", KU32
		}
		v := f.expr(call.Args[1])
		if v.K != k {
			f.fail(call, "value argument of binary.LittleEndian.Put…")
		}
		lo, hi := f.winTarget(call, call.Args[0])
		f.w("let %s ← GoEnc.%s %s %s %s %s", f.win.name, fnName, f.win.name, paren(lo), paren(hi), paren(v.S))
		f.wroteWindow()
		return
	}
	f.fail(s, "call statement %s", types.ExprString(call.Fun))
}

// setField emits the nested record update for a receiver field path
func (f *fn) setField(n ast.Node, path []*types.Var, val string) {
	if !f.mutRecv {
		f.fail(n, "internal: receiver assignment not foreseen")
	}
	lp := f.leanPath(n, path)
	f.bind("r", "", nestedUpdate("r", lp, val), false)
}

func nestedUpdate(base string, lp []string, val string) string {
	if len(lp) == 1 {
		return fmt.Sprintf("{ %s with %s := %s }", base, lp[0], val)
	}
	return fmt.Sprintf("{ %s with %s := %s }", base, lp[0], nestedUpdate(base+"."+lp[0], lp[1:], val))
}

var compoundOps = map[token.Token]token.Token{token.ADD_ASSIGN: token.ADD, token.SUB_ASSIGN: token.SUB, token.MUL_ASSIGN: token.MUL,
	token.AND_ASSIGN: token.AND, token.OR_ASSIGN: token.OR, token.XOR_ASSIGN: token.XOR}

func (f *fn) assign(s *ast.AssignStmt) {
	if len(s.Lhs) != 1 || len(s.Rhs) != 1 {
		f.fail(s, "multiple assignment")
	}
	lhs, rhs := s.Lhs[0], s.Rhs[0]
	if path, ok := f.fieldPath(lhs); ok && len(path) > 0 {
		if s.Tok != token.ASSIGN {
			f.fail(s, "compound assignment to a field")
		}
		f.setField(s, path, f.fieldValue(s, path[len(path)-1].Type(), rhs))
		return
	}
	if id, ok := lhs.(*ast.Ident); ok {
		f.localAssign(s, id, s.Tok.String(), rhs)
		return
	}
	// w[i] = v, w[i] op= v on the live window: an index beyond len(w) is a panic
	if ix, ok := lhs.(*ast.IndexExpr); ok {
		if id, ok := ix.X.(*ast.Ident); ok {
			base := f.expr(id)
			if base.K == KWin && f.win != nil && f.info.Uses[id] == f.win.obj {
				i, _ := f.natIndex(ix.Index)
				v := f.expr(rhs)
				if v.K != KU8 {
					f.fail(s, "value of kind %d stored into a byte", v.K)
				}
				val := v.S
				if s.Tok != token.ASSIGN {
					op, ok := compoundOps[s.Tok]
					if !ok {
						f.fail(s, "compound assignment %s", s.Tok)
					}
					t := f.tmp()
					f.w("let %s ← GoEnc.getB %s %s", t, base.S, paren(i))
					val = f.binop(s, op, Val{S: t, K: KU8, N: -1}, v, f.info.Types[rhs]).S
				}
				f.w("let %s ← GoEnc.setB %s %s %s", base.S, base.S, paren(i), paren(val))
				f.wroteWindow()
				return
			}
		}
	}
	f.fail(s, "assignment to %s", types.ExprString(lhs))
}

// fieldValue: the Lean term stored into a field of Go type t for the Go expression rhs
func (f *fn) fieldValue(n ast.Node, t types.Type, rhs ast.Expr) string {
	lt, _, ok := f.g.fieldType(t)
	if !ok {
		f.fail(n, "field of unsupported type %s", t)
	}
	if isNilIdent(rhs) {
		if _, isSlice := t.Underlying().(*types.Slice); !isSlice {
			f.fail(n, "nil stored into a field of type %s", t)
		}
		return "[]"
	}
	v := f.expr(rhs)
	switch lt {
	case "UInt8", "UInt16", "UInt32", "UInt64", "Bool":
		if leanKindType(v.K) == lt {
			if v.K == KBool {
				return boolTerm(v)
			}
			return v.S
		}
	case "Int":
		if v.K == KNat || v.K == KInt {
			return f.asInt(v)
		}
	case "Bytes":
		if v.K == KBytes {
			if at, ok := t.Underlying().(*types.Array); ok && int(at.Len()) != v.N {
				f.fail(n, "array length mismatch")
			}
			if v.Epoch > 0 {
				f.fail(n, "view of the buffer stored into a field")
			}
			return v.S
		}
	default:
		if v.K == KStruct && leanTypeName(v.T) == lt {
			return v.S
		}
	}
	f.fail(n, "value of kind %d stored into a field of type %s", v.K, t)
	return ""
}

// localAssign: `v := e`, `v = e`, `v op= e`, v++ / v-- (rhs nil)
func (f *fn) localAssign(n ast.Node, id *ast.Ident, tok string, rhs ast.Expr) {
	if id.Name == "_" {
		f.fail(n, "assignment to _")
	}
	obj := f.objOf(id)
	if obj == nil || obj == f.recvObj || obj == f.bufObj {
		f.fail(n, "assignment to %s", id.Name)
	}
	if cur, ok := f.vars[obj]; ok && cur.K == KWin {
		f.fail(n, "assignment to the window variable %s", id.Name)
	}
	var v Val
	switch tok {
	case ":=", "=":
		if isNilIdent(rhs) {
			f.fail(n, "nil stored into a variable")
		}
		v = f.expr(rhs)
	default:
		cur, ok := f.vars[obj]
		if !ok {
			f.fail(n, "compound assignment to an unknown variable")
		}
		var op token.Token
		switch tok {
		case "+=":
			op = token.ADD
		case "-=":
			op = token.SUB
		case "*=":
			op = token.MUL
		case "&=":
			op = token.AND
		case "|=":
			op = token.OR
		default:
			f.fail(n, "compound assignment %s", tok)
		}
		var b Val
		var ytv types.TypeAndValue
		if rhs == nil {
			b = Val{S: "1", K: KNat, N: -1}
			if width(cur.K) > 0 {
				b = Val{S: fmt.Sprintf("(1 : %s)", leanKindType(cur.K)), K: cur.K, N: -1}
			}
		} else {
			b = f.expr(rhs)
			ytv = f.info.Types[rhs]
		}
		v = f.binop(n, op, cur, b, ytv)
	}
	if v.K == KStruct || v.K == KWin {
		f.fail(n, "value of kind %d stored into a variable", v.K)
	}
	// the declared type decides between the fixed-width kinds and int; an int variable is ℕ or ℤ by its value
	if dk, _, ok := f.kindOfType(obj.Type()); !ok || (dk != v.K && !(dk == KInt && v.K == KNat)) {
		f.fail(n, "variable %s of type %s", id.Name, obj.Type())
	}
	name := f.nameOf(obj)
	s := v.S
	if v.K == KBool {
		s = boolTerm(v)
	}
	f.bind(name, leanKindType(v.K), s, false)
	f.vars[obj] = Val{S: name, K: v.K, N: v.N, Epoch: v.Epoch, View: v.View}
}

// ---- return ---------------------------------------------------------------------------------------------------

// okValue: what a successful return yields
func (f *fn) okValue(extra []string) string {
	if f.bufObj == nil {
		if len(extra) == 1 {
			return "pure " + paren(extra[0])
		}
		return "pure (" + strings.Join(extra, ", ") + ")"
	}
	var parts []string
	if f.mutRecv {
		parts = append(parts, "r")
	}
	parts = append(parts, "buf")
	if f.isCallee {
		parts = append(parts, "stale")
	}
	if len(parts) == 1 {
		return "pure buf"
	}
	return "pure (" + strings.Join(parts, ", ") + ")"
}

func (f *fn) isErrorCtor(e ast.Expr) bool {
	call, ok := e.(*ast.CallExpr)
	if !ok {
		return false
	}
	switch fullName(f.calleeOf(call)) {
	case "fmt.Errorf", "errors.New":
		return true
	}
	return false
}

func (f *fn) ret(s *ast.ReturnStmt) {
	if f.inLoop > 0 {
		f.fail(s, "return inside a loop")
	}
	if f.bufObj == nil {
		// a reader: `return e`
		if len(s.Results) != len(f.results) {
			f.fail(s, "return with %d results", len(s.Results))
		}
		var extra []string
		for i, e := range s.Results {
			v := f.expr(e)
			extra = append(extra, f.coerce(e, v, f.results[i]))
		}
		f.w("%s", f.okValue(extra))
		return
	}
	if len(s.Results) != 1 {
		f.fail(s, "return with %d results", len(s.Results))
	}
	last := s.Results[0]
	if f.isErrorCtor(last) {
		f.w("R.err")
		return
	}
	if isNilIdent(last) {
		f.finish(s)
		return
	}
	// tail call of a method taking the buffer: `return x.M(b)`
	if call, ok := last.(*ast.CallExpr); ok && f.isBufferCallee(call) {
		f.bufferCall(call)
		f.finish(s)
		return
	}
	f.fail(s, "return of %s", types.ExprString(last))
}

// finish: successful return — the live window becomes part of the buffer
func (f *fn) finish(n ast.Node) {
	if f.inJoin > 0 {
		f.fail(n, "successful return inside a conditional that control flows out of")
	}
	saved := f.win
	savedDead := map[types.Object]string{}
	for k, v := range f.dead {
		savedDead[k] = v
	}
	savedVars := map[types.Object]Val{}
	for k, v := range f.vars {
		savedVars[k] = v
	}
	f.commit("after the return")
	f.w("%s", f.okValue(nil))
	f.win, f.dead, f.vars = saved, savedDead, savedVars
}
