package main

import (
	"fmt"
	"go/ast"
	"go/token"
	"go/types"
	"sort"
	"strings"
)

func elseStmts(e ast.Stmt) []ast.Stmt {
	switch x := e.(type) {
	case nil:
		return nil
	case *ast.BlockStmt:
		return x.List
	default:
		return []ast.Stmt{x}
	}
}

// arm: one alternative of a conditional; run translates its statements, calling fin where control falls off its end
type arm struct {
	term bool
	run  func(ind int, fin finFn)
}

func (f *fn) stmtArm(stmts []ast.Stmt) arm {
	return arm{term: terminates(stmts), run: func(ind int, fin finFn) { f.block(stmts, ind, fin) }}
}

// snapshot of the translation state (everything but the emitted lines)
type state struct {
	vars  map[types.Object]Val
	dead  map[types.Object]string
	win   *window
	epoch int
	mods  map[string]bool
	ntmp  int
}

func (f *fn) save() state {
	s := state{vars: map[types.Object]Val{}, dead: map[types.Object]string{}, mods: map[string]bool{}, win: f.win, epoch: f.epoch, ntmp: f.ntmp}
	for k, v := range f.vars {
		s.vars[k] = v
	}
	for k, v := range f.dead {
		s.dead[k] = v
	}
	for k, v := range f.mods {
		s.mods[k] = v
	}
	return s
}

func (f *fn) restore(s state, keepTmp bool) {
	f.vars, f.dead, f.mods, f.win, f.epoch = s.vars, s.dead, s.mods, s.win, s.epoch
	if !keepTmp {
		f.ntmp = s.ntmp
	}
}

// sub translates an arm into a fresh line buffer and returns the lines; the state after the arm is discarded
// (returned for inspection)
func (f *fn) sub(a arm, ind int, fin finFn, scratch bool) ([]string, state) {
	savedLines := f.lines
	before := f.save()
	f.lines = nil
	f.mods = map[string]bool{}
	a.run(ind, fin)
	out := f.lines
	after := f.save()
	f.lines = savedLines
	f.restore(before, !scratch)
	f.ind = ind - 1
	return out, after
}

func (f *fn) ifStmt(s *ast.IfStmt, ind int, cont finFn) {
	if s.Init != nil {
		// `if err := x.M(b); err != nil { return err }`
		if as, ok := s.Init.(*ast.AssignStmt); ok && len(as.Rhs) == 1 && len(as.Lhs) == 1 {
			if call, ok := as.Rhs[0].(*ast.CallExpr); ok && f.isBufferCallee(call) {
				errId, _ := as.Lhs[0].(*ast.Ident)
				var errObj types.Object
				if errId != nil {
					errObj = f.info.Defs[errId]
				}
				if s.Else != nil || !f.isErrNotNil(s.Cond, errObj) || !f.isPropagate(s.Body, errObj) {
					f.fail(s, "call of a method taking the buffer whose error is not propagated at once")
				}
				f.bufferCall(call)
				cont()
				return
			}
		}
		// `if _, err := rand.Read(w); err != nil { return err }`
		if as, ok := s.Init.(*ast.AssignStmt); ok && len(as.Rhs) == 1 {
			if call, ok := as.Rhs[0].(*ast.CallExpr); ok && fullName(f.calleeOf(call)) == "crypto/rand.Read" {
				f.randRead(s, as, call)
				cont()
				return
			}
		}
		f.fail(s, "if statement with an initialiser of unsupported form")
	}
	cond := f.expr(s.Cond)
	if cond.K != KBool {
		f.fail(s, "condition of unsupported kind")
	}
	f.cond(s, boolTerm(cond), f.stmtArm(s.Body.List), f.stmtArm(elseStmts(s.Else)), ind, cont)
}

func wrapDo(lines []string, head, tail string) []string {
	// head ++ "(do" … ")" ++ tail, or a one-liner
	if len(lines) == 1 {
		return []string{head + " " + strings.TrimSpace(lines[0]) + tail}
	}
	out := []string{head + " (do"}
	out = append(out, lines[:len(lines)-1]...)
	out = append(out, lines[len(lines)-1]+")"+tail)
	return out
}

// cond: `if c { A } else { B }` followed by the continuation cont
func (f *fn) cond(n ast.Node, c string, A, B arm, ind int, cont finFn) {
	f.ind = ind
	pad := strings.Repeat("  ", ind)
	switch {
	case A.term:
		a, _ := f.sub(A, ind+1, nil, false)
		f.lines = append(f.lines, wrapDo(a, pad+"if "+c+" then", " else")...)
		if B.term {
			B.run(ind, nil)
		} else {
			B.run(ind, cont)
		}
		return
	case B.term:
		b, _ := f.sub(B, ind+1, nil, false)
		f.lines = append(f.lines, wrapDo(b, pad+"if !("+c+") then", " else")...)
		A.run(ind, cont)
		return
	}
	// control flows out of both arms: join what they rebind
	known := map[string]bool{"r": true, "buf": true, "stale": true}
	for _, v := range f.vars {
		known[v.S] = true
	}
	f.inJoin++
	defer func() { f.inJoin-- }()
	probe := func() (map[string]bool, state, state) {
		_, sa := f.sub(A, ind+2, func() {}, true)
		_, sb := f.sub(B, ind+2, func() {}, true)
		m := map[string]bool{}
		for k := range sa.mods {
			if known[k] {
				m[k] = true
			}
		}
		for k := range sb.mods {
			if known[k] {
				m[k] = true
			}
		}
		return m, sa, sb
	}
	mods, sa, sb := probe()
	bufferOps := mods["buf"] || mods["stale"] || sa.win != f.win || sb.win != f.win
	if bufferOps {
		// an arm calls PrependBytes / AppendBytes: the window handed out before is closed first
		if f.inLoop > 0 {
			f.fail(n, "PrependBytes / AppendBytes inside a loop")
		}
		f.ind = ind
		f.commit("after a conditional that calls PrependBytes / AppendBytes (the buffer may have been reallocated)")
		known = map[string]bool{"r": true, "buf": true, "stale": true}
		for _, v := range f.vars {
			known[v.S] = true
		}
		mods, sa, sb = probe()
	}
	// ordered components: r, buf, stale, then the variables in order of declaration
	var comps, types_ []string
	for _, k := range []string{"r", "buf", "stale"} {
		if mods[k] {
			comps = append(comps, k)
			if k == "r" {
				types_ = append(types_, leanTypeName(f.recvType))
			} else {
				types_ = append(types_, "Bytes")
			}
		}
	}
	var objs []types.Object
	for o, v := range f.vars {
		if mods[v.S] {
			objs = append(objs, o)
		}
	}
	sort.Slice(objs, func(i, j int) bool { return objs[i].Pos() < objs[j].Pos() })
	for _, o := range objs {
		va, oka := sa.vars[o]
		vb, okb := sb.vars[o]
		if !oka || !okb {
			f.fail(n, "variable %s is not usable after one arm of the conditional", o.Name())
		}
		if va.K != vb.K {
			f.fail(n, "variable %s has different kinds on the two arms", o.Name())
		}
		comps = append(comps, f.vars[o].S)
		types_ = append(types_, leanKindType(va.K))
	}
	if len(comps) == 0 {
		// nothing is rebound (e.g. arms with no effect): no conditional is needed, but keep the evaluation order honest
		f.fail(n, "conditional without effect")
	}
	tuple := comps[0]
	if len(comps) > 1 {
		tuple = "(" + strings.Join(comps, ", ") + ")"
	}
	closeArm := func() {
		if bufferOps {
			f.commit("after a conditional that calls PrependBytes / AppendBytes (the buffer may have been reallocated)")
		}
		f.w("pure %s", tuple)
	}
	a, sa2 := f.sub(A, ind+2, closeArm, false)
	b, sb2 := f.sub(B, ind+2, closeArm, false)
	f.ind = ind
	j := comps[0]
	if len(comps) > 1 {
		f.ntmp++
		j = fmt.Sprintf("j%d", f.ntmp)
	}
	lines := wrapDo(a, pad+"let "+j+" ← (if "+c+" then", " else (do")
	f.lines = append(f.lines, lines...)
	f.lines = append(f.lines, b[:len(b)-1]...)
	f.lines = append(f.lines, b[len(b)-1]+"))")
	f.mods[comps[0]] = true
	if len(comps) > 1 {
		for i, cn := range comps {
			proj := j + strings.Repeat(".2", i)
			if i < len(comps)-1 {
				proj += ".1"
			}
			f.bind(cn, types_[i], proj, false)
		}
	}
	// the state after the join: kinds and static lengths as after the arms; views of the buffer are stale if an arm wrote
	for _, o := range objs {
		v := f.vars[o]
		va := sa2.vars[o]
		v.K = va.K
		if v.K != KWin {
			v.N = -1
		}
		v.View = nil
		f.vars[o] = v
	}
	if sa2.epoch != f.epoch || sb2.epoch != f.epoch {
		f.epoch = max(sa2.epoch, sb2.epoch) + 1
	}
	for o, why := range sa2.dead {
		f.dead[o] = why
	}
	for o, why := range sb2.dead {
		f.dead[o] = why
	}
	if cont == nil {
		panic(giveUp{"control reaches the end of a block that must return"})
	}
	f.inJoin--
	defer func() { f.inJoin++ }()
	cont()
}

// switchStmt: `switch tag { case a, b: …; default: … }` as an if-else chain on the tag evaluated once
func (f *fn) switchStmt(s *ast.SwitchStmt, ind int, cont finFn) {
	if s.Init != nil || s.Tag == nil {
		f.fail(s, "switch without a tag or with an initialiser")
	}
	f.ind = ind
	tag := f.expr(s.Tag)
	if width(tag.K) == 0 {
		f.fail(s, "switch tag of unsupported kind")
	}
	tv := f.tmp()
	f.w("let %s : %s := %s", tv, leanKindType(tag.K), tag.S)
	type clause struct {
		cond string
		body []ast.Stmt
	}
	var clauses []clause
	var deflt []ast.Stmt
	for i, c := range s.Body.List {
		cc := c.(*ast.CaseClause)
		for _, st := range cc.Body {
			if br, ok := st.(*ast.BranchStmt); ok {
				f.fail(br, "%s in a switch", br.Tok)
			}
		}
		if cc.List == nil {
			if i != len(s.Body.List)-1 {
				f.fail(s, "default clause that is not last")
			}
			deflt = cc.Body
			continue
		}
		var alts []string
		for _, e := range cc.List {
			before := len(f.lines)
			v := f.expr(e)
			if v.K != tag.K || len(f.lines) != before {
				f.fail(e, "case expression")
			}
			alts = append(alts, fmt.Sprintf("(%s == %s)", tv, v.S))
		}
		cond := alts[0]
		if len(alts) > 1 {
			cond = "(" + strings.Join(alts, " || ") + ")"
		}
		clauses = append(clauses, clause{cond, cc.Body})
	}
	var chain func(k int) arm
	chain = func(k int) arm {
		if k == len(clauses) {
			return f.stmtArm(deflt)
		}
		A := f.stmtArm(clauses[k].body)
		B := chain(k + 1)
		return arm{term: A.term && B.term, run: func(ind int, fin finFn) { f.cond(s, clauses[k].cond, A, B, ind, fin) }}
	}
	if len(clauses) == 0 {
		f.fail(s, "switch without case clauses")
	}
	top := chain(0)
	if top.term {
		top.run(ind, nil)
		return
	}
	top.run(ind, cont)
}

// ---- methods taking the caller's buffer -------------------------------------------------------------------------

// isBufferCallee: `x.M(b)` where x is the receiver or a struct inside it and b the buffer parameter
func (f *fn) isBufferCallee(call *ast.CallExpr) bool {
	se, ok := call.Fun.(*ast.SelectorExpr)
	if !ok || f.bufObj == nil {
		return false
	}
	sel := f.info.Selections[se]
	if sel == nil || sel.Kind() != types.MethodVal {
		return false
	}
	if _, ok := sel.Obj().(*types.Func); !ok {
		return false
	}
	if _, rooted := f.fieldPath(se.X); !rooted {
		return false
	}
	for _, a := range call.Args {
		if id, ok := a.(*ast.Ident); ok && f.info.Uses[id] == f.bufObj {
			return true
		}
	}
	return false
}

// bufferCall: the callee serialises into the same buffer; its error (if any) is propagated by the caller at once
func (f *fn) bufferCall(call *ast.CallExpr) {
	if f.inLoop > 0 {
		f.fail(call, "call of a method taking the buffer inside a loop")
	}
	se := call.Fun.(*ast.SelectorExpr)
	sel := f.info.Selections[se]
	callee := sel.Obj().(*types.Func)
	path, _ := f.fieldPath(se.X)
	t := f.info.TypeOf(se.X)
	idx := sel.Index()
	for _, i := range idx[:len(idx)-1] {
		if p, ok := t.Underlying().(*types.Pointer); ok {
			t = p.Elem()
		}
		st := t.Underlying().(*types.Struct)
		path = append(path, st.Field(i))
		t = st.Field(i).Type()
	}
	sig := callee.Type().(*types.Signature)
	recvNamed, isStruct := derefNamedStruct(sig.Recv().Type())
	if !isStruct {
		f.fail(call, "call of %s: receiver is not a struct", callee.FullName())
	}
	if sig.Results().Len() != 1 || sig.Results().At(0).Type().String() != "error" {
		f.fail(call, "call of %s: result is not a single error", callee.FullName())
	}
	src, ok := f.g.funcs[callee]
	if !ok {
		f.fail(call, "call of %s: no source", callee.FullName())
	}
	recv := "r"
	if len(path) > 0 {
		recv = "r." + strings.Join(f.leanPath(call, path), ".")
	}
	var args []string
	usesOpts := false
	for i, a := range call.Args {
		if id, ok := a.(*ast.Ident); ok && (f.info.Uses[id] == f.bufObj) {
			continue
		}
		if id, ok := a.(*ast.Ident); ok && f.optsObj != nil && f.info.Uses[id] == f.optsObj {
			usesOpts = true
			continue
		}
		v := f.expr(a)
		if v.K == KStruct || v.K == KWin || v.Epoch > 0 {
			f.fail(call, "argument of %s", callee.FullName())
		}
		args = append(args, paren(argTerm(f, v, sig.Params().At(i).Type())))
	}
	name := leanTypeName(recvNamed) + "." + callee.Name()
	if _, done := f.g.defs[name]; !done {
		if f.g.inProgress[name] {
			f.fail(call, "recursive call of %s", callee.FullName())
		}
		f.g.inProgress[name] = true
		f.g.useField(recvNamed, "")
		h := f.g.newFn(src, recvNamed)
		if h.recvObj == nil {
			f.fail(call, "call of %s: unnamed receiver", callee.FullName())
		}
		h.isCallee = true
		pdecl := h.bindParams(src.decl.Type.Params.List)
		if h.bufObj == nil {
			f.fail(call, "call of %s: no buffer parameter", callee.FullName())
		}
		if h.assignsReceiver(src.decl.Body) {
			f.fail(call, "call of %s: it assigns its receiver", callee.FullName())
		}
		opts := ""
		if h.optsObj != nil && h.usesObj(src.decl.Body, h.optsObj) {
			opts = " (opts : SerializeOptions)"
		}
		if (opts != "") != usesOpts && opts != "" {
			f.fail(call, "call of %s: options", callee.FullName())
		}
		func() {
			defer func() {
				if r := recover(); r != nil {
					if gu, ok := r.(giveUp); ok {
						panic(giveUp{fmt.Sprintf("%s (in %s)", gu.msg, callee.FullName())})
					}
					panic(r)
				}
			}()
			h.block(src.decl.Body.List, 1, nil)
		}()
		pos := src.pkg.Fset.Position(src.decl.Pos())
		text := fmt.Sprintf("/-- translated from `%s` (%s); returns the buffer and the stale bytes not yet handed out -/\ndef %s (r : %s)%s %s(stale : Bytes) (buf : Bytes) : R (Bytes × Bytes) := do\n%s\n",
			callee.FullName(), shortFile(pos.Filename), name, leanTypeName(recvNamed), opts, joinSp(pdecl), strings.Join(h.lines, "\n"))
		f.g.defs[name] = text
		f.g.defOrder = append(f.g.defOrder, name)
		delete(f.g.inProgress, name)
	}
	f.commit("after a call that serialises into the buffer (the buffer may have been reallocated)")
	t2 := f.tmp()
	optArg := ""
	if usesOpts && strings.Contains(f.g.defs[name], "(opts : SerializeOptions)") {
		optArg = " opts"
	}
	f.w("let %s ← %s %s%s %sstale buf", t2, name, recv, optArg, joinSp(args))
	f.bind("buf", "Bytes", t2+".1", false)
	f.bind("stale", "Bytes", t2+".2", false)
	f.epoch++
	_ = token.DEFINE
}

func joinSp(l []string) string {
	if len(l) == 0 {
		return ""
	}
	return strings.Join(l, " ") + " "
}

// forStmt: `for i := 0; i < N; i++ { body }` with N a constant or an expression over variables the body does not assign,
// i not assigned by the body, no break / continue / return: exactly the indices 0 … N-1 in order, i.e. a monadic
// left fold over `List.range N` of what the body rebinds
func (f *fn) forStmt(s *ast.ForStmt, ind int) {
	f.ind = ind
	init, ok := s.Init.(*ast.AssignStmt)
	if !ok || init.Tok != token.DEFINE || len(init.Lhs) != 1 || len(init.Rhs) != 1 {
		f.fail(s, "loop whose initialiser is not `i := 0`")
	}
	iv, ok := init.Lhs[0].(*ast.Ident)
	if c, isC := constInt(f.info, init.Rhs[0]); !ok || !isC || c != 0 {
		f.fail(s, "loop whose initialiser is not `i := 0`")
	}
	iObj := f.info.Defs[iv]
	if b, ok := iObj.Type().Underlying().(*types.Basic); !ok || b.Kind() != types.Int {
		f.fail(s, "loop variable that is not an int")
	}
	cond, ok := s.Cond.(*ast.BinaryExpr)
	if !ok || cond.Op != token.LSS {
		f.fail(s, "loop whose condition is not `i < N`")
	}
	if id, ok := cond.X.(*ast.Ident); !ok || f.info.Uses[id] != iObj {
		f.fail(s, "loop whose condition is not `i < N`")
	}
	post, ok := s.Post.(*ast.IncDecStmt)
	if !ok || post.Tok != token.INC {
		f.fail(s, "loop whose post statement is not `i++`")
	}
	if id, ok := post.X.(*ast.Ident); !ok || f.info.Uses[id] != iObj {
		f.fail(s, "loop whose post statement is not `i++`")
	}
	// the bound is re-evaluated by Go on every iteration: it must not depend on anything the body changes
	before := len(f.lines)
	bound := f.expr(cond.Y)
	if len(f.lines) != before {
		f.fail(s, "loop bound with an index expression")
	}
	// a bound that may be negative: `i < N` fails at once for N ≤ 0, i.e. max(N, 0) iterations
	boundTerm := bound.S
	switch bound.K {
	case KNat:
	case KInt:
		boundTerm = fmt.Sprintf("Int.toNat %s", paren(bound.S))
	default:
		f.fail(s, "loop bound of unsupported kind")
	}
	ast.Inspect(s.Body, func(n ast.Node) bool {
		switch x := n.(type) {
		case *ast.AssignStmt:
			for _, l := range x.Lhs {
				if id, ok := l.(*ast.Ident); ok && f.info.Uses[id] == iObj {
					f.fail(s, "loop body assigns the loop variable")
				}
			}
		case *ast.IncDecStmt:
			if id, ok := x.X.(*ast.Ident); ok && f.info.Uses[id] == iObj {
				f.fail(s, "loop body assigns the loop variable")
			}
		case *ast.UnaryExpr:
			if x.Op == token.AND {
				f.fail(s, "address taken inside a loop")
			}
		case *ast.BranchStmt:
			f.fail(s, "%s inside a loop", x.Tok)
		}
		return true
	})
	iname := f.nameOf(iObj)
	known := map[string]bool{"r": true}
	for _, v := range f.vars {
		known[v.S] = true
	}
	f.vars[iObj] = Val{S: iname, K: KNat, N: -1}
	body := arm{run: func(ind int, fin finFn) { f.block(s.Body.List, ind, fin) }}
	f.inLoop++
	_, sb := f.sub(body, ind+2, func() {}, true)
	var comps, types_ []string
	var objs []types.Object
	if sb.mods["r"] {
		comps, types_ = append(comps, "r"), append(types_, leanTypeName(f.recvType))
	}
	for o, v := range f.vars {
		if sb.mods[v.S] && known[v.S] {
			objs = append(objs, o)
		}
	}
	sort.Slice(objs, func(i, j int) bool { return objs[i].Pos() < objs[j].Pos() })
	for _, o := range objs {
		if sb.vars[o].K != f.vars[o].K {
			f.fail(s, "loop body changes the kind of variable %s", o.Name())
		}
		comps = append(comps, f.vars[o].S)
		types_ = append(types_, leanKindType(f.vars[o].K))
	}
	// the bound must not mention what the body rebinds
	for _, cn := range comps {
		if containsIdent(bound.S, cn) {
			f.fail(s, "loop bound depends on %s, which the body assigns", cn)
		}
	}
	if len(comps) == 0 {
		f.fail(s, "loop without effect")
	}
	tuple := comps[0]
	if len(comps) > 1 {
		tuple = "(" + strings.Join(comps, ", ") + ")"
	}
	f.ntmp++
	st := fmt.Sprintf("s%d", f.ntmp)
	binder := comps[0]
	var pre []string
	if len(comps) > 1 {
		binder = st
		for i, cn := range comps {
			proj := st + strings.Repeat(".2", i)
			if i < len(comps)-1 {
				proj += ".1"
			}
			pre = append(pre, strings.Repeat("  ", ind+2)+fmt.Sprintf("let %s : %s := %s", cn, types_[i], proj))
		}
	}
	lines, after := f.sub(body, ind+2, func() { f.w("pure %s", tuple) }, false)
	f.inLoop--
	f.ind = ind
	res := comps[0]
	if len(comps) > 1 {
		f.ntmp++
		res = fmt.Sprintf("j%d", f.ntmp)
	}
	f.w("let %s ← List.foldlM (fun %s %s => (do", res, binder, iname)
	f.lines = append(f.lines, pre...)
	f.lines = append(f.lines, lines[:len(lines)-1]...)
	f.lines = append(f.lines, lines[len(lines)-1]+")) "+tuple+" (List.range "+paren(boundTerm)+")")
	f.mods[comps[0]] = true
	if len(comps) > 1 {
		for i, cn := range comps {
			proj := res + strings.Repeat(".2", i)
			if i < len(comps)-1 {
				proj += ".1"
			}
			f.bind(cn, types_[i], proj, false)
		}
	}
	for _, o := range objs {
		v := f.vars[o]
		if v.K != KWin {
			v.N = -1
		}
		v.View = nil
		f.vars[o] = v
	}
	if after.epoch != f.epoch {
		f.epoch = after.epoch + 1
	}
	delete(f.vars, iObj)
}

func containsIdent(s, id string) bool {
	isId := func(c byte) bool {
		return c == '_' || c == '.' || (c >= '0' && c <= '9') || (c >= 'a' && c <= 'z') || (c >= 'A' && c <= 'Z')
	}
	for i := 0; i+len(id) <= len(s); i++ {
		if s[i:i+len(id)] == id && (i == 0 || !isId(s[i-1])) && (i+len(id) == len(s) || !isId(s[i+len(id)]) || s[i+len(id)] == '.') {
			return true
		}
	}
	return false
}
