package main

import (
	"fmt"
	"go/ast"
	"go/constant"
	"go/token"
	"go/types"
	"strings"
)

type Kind int

const (
	KU8 Kind = iota
	KU16
	KU32
	KU64
	KBool
	KNat   // a Go int / int64 value known to be ≥ 0 by construction (Lean Nat)
	KInt   // a Go int / int64 value (Lean Int)
	KBytes // a byte list: an array value, the bytes of a string / []byte field, a view of the buffer (Lean Bytes); N = static length or -1
	KWin   // the live window: the local []byte handed back by the last PrependBytes / AppendBytes (Lean Bytes)
	KStruct
	KFunc // an opaque function value (an interface field applied through a helper), Lean Bytes → Bytes
)

type Val struct {
	S     string
	K     Kind
	N     int          // static length (KBytes arrays, slices with constant bounds), -1 = unknown
	Prop  bool         // KBool given as a decidable Prop
	T     *types.Named // KStruct
	Epoch int          // > 0: a view of the serialize buffer taken at this epoch (stale once the buffer is written)

	IsConst bool  // KNat whose value is known statically although Go does not treat the expression as a constant (a.cipher.BlockSize())
	Const   int64 // its value
	View    *view // KBytes: the local ALIASES b.Bytes()[lo:] of the buffer's current array (ext.go); killed by every allocation
}

// window: the one slice into the buffer that may be written
type window struct {
	obj    types.Object
	name   string
	append bool // true: the bytes lie behind `buf`, false: in front of it
}

// fn is the state of the translation of one Go function into one Lean definition
type fn struct {
	g        *gen
	src      funcSrc
	info     *types.Info
	recvObj  types.Object // the receiver variable (nil for pure functions)
	recvType *types.Named
	bufObj   types.Object // the gopacket.SerializeBuffer parameter
	optsObj  types.Object // the gopacket.SerializeOptions parameter
	names    map[types.Object]string
	used     map[string]bool
	vars     map[types.Object]Val
	ntmp     int
	lines    []string
	ind      int    // indentation of the statement being translated
	results  []Kind // kinds of the results before the error
	pure     bool   // translating a pure helper (no monad)

	win      *window
	dead     map[types.Object]string // slices into the buffer that must not be used any more -> why
	epoch    int                     // bumped by every write to the buffer
	mods     map[string]bool         // Lean names rebound so far (r, buf, stale, locals)
	mutRecv  bool                    // the function assigns fields of its receiver: the receiver is part of the result
	isCallee bool                    // a method called with the caller's buffer: returns (buf, stale)
	noResult bool                    // callee declared without results other than the error
	inLoop   int
	inJoin   int      // > 0 while translating an arm control flows out of: a successful return there cannot be expressed
	opaques  []opaque // uninterpreted helper functions: parameters of the definition
}

func (g *gen) newFn(src funcSrc, recv *types.Named) *fn {
	f := &fn{g: g, src: src, info: src.pkg.TypesInfo, recvType: recv, names: map[types.Object]string{},
		used: map[string]bool{"r": true, "prev": true, "buf": true, "stale": true, "opts": true}, vars: map[types.Object]Val{},
		dead: map[types.Object]string{}, mods: map[string]bool{}, epoch: 1}
	if src.decl.Recv != nil && len(src.decl.Recv.List) == 1 && len(src.decl.Recv.List[0].Names) == 1 {
		f.recvObj = f.info.Defs[src.decl.Recv.List[0].Names[0]]
	}
	return f
}

func (f *fn) fail(n ast.Node, format string, a ...interface{}) {
	pos := f.src.pkg.Fset.Position(n.Pos())
	panic(giveUp{fmt.Sprintf("%s:%d: %s", shortFile(pos.Filename), pos.Line, fmt.Sprintf(format, a...))})
}

func (f *fn) w(format string, a ...interface{}) {
	f.lines = append(f.lines, strings.Repeat("  ", f.ind)+fmt.Sprintf(format, a...))
}

// bind emits a (re)binding of a Lean name and records it as modified
func (f *fn) bind(name, typ, term string, monadic bool) {
	f.mods[name] = true
	if monadic {
		f.w("let %s ← %s", name, term)
		return
	}
	if typ == "" {
		f.w("let %s := %s", name, term)
		return
	}
	f.w("let %s : %s := %s", name, typ, term)
}

func (f *fn) tmp() string {
	f.ntmp++
	return fmt.Sprintf("t%d", f.ntmp)
}

func (f *fn) nameOf(obj types.Object) string {
	if n, ok := f.names[obj]; ok {
		return n
	}
	base := obj.Name()
	if leanReserved[base] || base == "_" || (len(base) > 1 && base[0] == 't' && base[1] >= '0' && base[1] <= '9') || (len(base) > 1 && base[0] == 'j' && base[1] >= '0' && base[1] <= '9') || (len(base) > 1 && base[0] == 's' && base[1] >= '0' && base[1] <= '9') {
		base += "_"
	}
	n := base
	for i := 1; f.used[n]; i++ {
		n = fmt.Sprintf("%s_%d", base, i)
	}
	f.used[n] = true
	f.names[obj] = n
	return n
}

func isNamed(t types.Type, pkgSuffix, name string) bool {
	n, ok := t.(*types.Named)
	return ok && n.Obj().Name() == name && n.Obj().Pkg() != nil && strings.HasSuffix(n.Obj().Pkg().Path(), pkgSuffix)
}

func isSerializeBuffer(t types.Type) bool  { return isNamed(t, "google/gopacket", "SerializeBuffer") }
func isSerializeOptions(t types.Type) bool { return isNamed(t, "google/gopacket", "SerializeOptions") }

// bindParams registers the parameters; the buffer and the options are recorded, the others returned (Lean binders)
func (f *fn) bindParams(params []*ast.Field) []string {
	var out []string
	for _, p := range params {
		pt := f.info.TypeOf(p.Type)
		if len(p.Names) == 0 {
			f.fail(p, "unnamed parameter")
		}
		for _, id := range p.Names {
			obj := f.info.Defs[id]
			if isSerializeOptions(pt) {
				f.optsObj = obj // nil for `_`
				continue
			}
			if isSerializeBuffer(pt) {
				if obj == nil {
					f.fail(p, "blank buffer parameter")
				}
				f.bufObj = obj
				continue
			}
			if obj == nil {
				f.fail(p, "blank parameter")
			}
			k, n, ok := f.kindOfType(obj.Type())
			if !ok {
				f.fail(p, "parameter %s of unsupported type %s", id.Name, obj.Type())
			}
			f.vars[obj] = Val{S: f.nameOf(obj), K: k, N: n}
			out = append(out, fmt.Sprintf("(%s : %s)", f.nameOf(obj), leanKindType(k)))
		}
	}
	return out
}

// usesObj: the body mentions obj
func (f *fn) usesObj(body ast.Node, obj types.Object) bool {
	found := false
	ast.Inspect(body, func(n ast.Node) bool {
		if id, ok := n.(*ast.Ident); ok && f.info.Uses[id] == obj {
			found = true
		}
		return !found
	})
	return found
}

// assignsReceiver: the body assigns (or copies into) a field of the receiver
func (f *fn) assignsReceiver(body ast.Node) bool {
	found := false
	rooted := func(e ast.Expr) bool {
		for {
			switch x := e.(type) {
			case *ast.IndexExpr:
				e = x.X
				continue
			case *ast.SliceExpr:
				e = x.X
				continue
			}
			break
		}
		p, ok := f.fieldPath(e)
		return ok && len(p) > 0
	}
	ast.Inspect(body, func(n ast.Node) bool {
		switch x := n.(type) {
		case *ast.AssignStmt:
			for _, l := range x.Lhs {
				if rooted(l) {
					found = true
				}
			}
		case *ast.IncDecStmt:
			if rooted(x.X) {
				found = true
			}
		case *ast.CallExpr:
			if id, ok := x.Fun.(*ast.Ident); ok && id.Name == "copy" && len(x.Args) == 2 && rooted(x.Args[0]) {
				found = true
			}
		}
		return !found
	})
	return found
}

// kindOfType: the kind of a VALUE of Go type t in an expression
func (f *fn) kindOfType(t types.Type) (Kind, int, bool) {
	switch u := t.Underlying().(type) {
	case *types.Basic:
		switch u.Kind() {
		case types.Uint8:
			return KU8, -1, true
		case types.Uint16:
			return KU16, -1, true
		case types.Uint32:
			return KU32, -1, true
		case types.Uint, types.Uint64:
			return KU64, -1, true
		case types.Bool, types.UntypedBool:
			return KBool, -1, true
		case types.Int, types.Int64, types.UntypedInt:
			return KInt, -1, true
		case types.String:
			return KBytes, -1, true
		}
	case *types.Slice:
		if isByte(u.Elem()) {
			return KBytes, -1, true
		}
	case *types.Array:
		if isByte(u.Elem()) {
			return KBytes, int(u.Len()), true
		}
	}
	return 0, -1, false
}

func leanKindType(k Kind) string {
	switch k {
	case KU8:
		return "UInt8"
	case KU16:
		return "UInt16"
	case KU32:
		return "UInt32"
	case KU64:
		return "UInt64"
	case KBool:
		return "Bool"
	case KNat:
		return "Nat"
	case KInt:
		return "Int"
	case KBytes, KWin:
		return "Bytes"
	}
	return "?"
}

func width(k Kind) int {
	switch k {
	case KU8:
		return 8
	case KU16:
		return 16
	case KU32:
		return 32
	case KU64:
		return 64
	}
	return 0
}

// constVal: the literal for a constant expression of the given Go type
func (f *fn) constVal(e ast.Expr, tv types.TypeAndValue) Val {
	switch tv.Value.Kind() {
	case constant.Bool:
		return Val{S: fmt.Sprintf("%v", constant.BoolVal(tv.Value)), K: KBool, N: -1}
	case constant.Int:
		k, _, ok := f.kindOfType(tv.Type)
		if !ok {
			f.fail(e, "constant of unsupported type %s", tv.Type)
		}
		s := tv.Value.ExactString()
		switch k {
		case KU8, KU16, KU32, KU64:
			return Val{S: fmt.Sprintf("(%s : %s)", s, leanKindType(k)), K: k, N: -1}
		case KInt:
			if constant.Sign(tv.Value) >= 0 {
				return Val{S: s, K: KNat, N: -1}
			}
			return Val{S: fmt.Sprintf("(%s : Int)", s), K: KInt, N: -1}
		}
	}
	f.fail(e, "constant of unsupported kind")
	return Val{}
}

func (f *fn) asInt(v Val) string {
	if v.K == KNat {
		return fmt.Sprintf("((%s : Nat) : Int)", v.S)
	}
	return v.S
}

// boolTerm: v as a Bool-typed term
func boolTerm(v Val) string {
	if v.Prop {
		return fmt.Sprintf("decide (%s)", v.S)
	}
	return v.S
}

// natIndex: e as a Nat-typed index / slice bound / length; a negative Go value is a panic
func (f *fn) natIndex(e ast.Expr) (string, int) {
	v := f.expr(e)
	c := -1
	if tv, ok := f.info.Types[e]; ok && tv.Value != nil && tv.Value.Kind() == constant.Int {
		if n, ok := constant.Int64Val(tv.Value); ok && n >= 0 {
			c = int(n)
		}
	}
	if c < 0 && v.IsConst && v.Const >= 0 {
		c = int(v.Const)
	}
	return f.natOf(e, v), c
}

func (f *fn) natOf(n ast.Node, v Val) string {
	switch v.K {
	case KNat:
		return v.S
	case KU8, KU16, KU32, KU64:
		return fmt.Sprintf("(%s).toNat", v.S)
	case KInt:
		t := f.tmp()
		f.w("let %s ← GoEnc.nat %s", t, paren(v.S))
		return t
	}
	f.fail(n, "index of unsupported kind")
	return ""
}

func paren(s string) string {
	if strings.ContainsAny(s, " ") && !(strings.HasPrefix(s, "(") && matchingParen(s) == len(s)-1) && !(strings.HasPrefix(s, "[") && strings.HasSuffix(s, "]")) {
		return "(" + s + ")"
	}
	return s
}

func matchingParen(s string) int {
	d := 0
	for i, c := range s {
		if c == '(' {
			d++
		} else if c == ')' {
			d--
			if d == 0 {
				return i
			}
		}
	}
	return -1
}

// fieldPath: if e is x.A.B… rooted at the receiver, the Go field names from the receiver's struct (embedded ones included)
func (f *fn) fieldPath(e ast.Expr) ([]*types.Var, bool) {
	switch x := e.(type) {
	case *ast.ParenExpr:
		return f.fieldPath(x.X)
	case *ast.Ident:
		if f.recvObj != nil && f.info.Uses[x] == f.recvObj {
			return nil, true
		}
	case *ast.SelectorExpr:
		base, ok := f.fieldPath(x.X)
		if !ok {
			return nil, false
		}
		sel := f.info.Selections[x]
		if sel == nil || sel.Kind() != types.FieldVal {
			return nil, false
		}
		// walk the index path (embedded fields) from the type of x.X
		t := f.info.TypeOf(x.X)
		for _, i := range sel.Index() {
			if p, ok := t.Underlying().(*types.Pointer); ok {
				t = p.Elem()
			}
			st, ok := t.Underlying().(*types.Struct)
			if !ok {
				return nil, false
			}
			base = append(base, st.Field(i))
			t = st.Field(i).Type()
		}
		return base, true
	}
	return nil, false
}

// leanPath: Lean access path components for a Go field path; records the use of every component
func (f *fn) leanPath(n ast.Node, path []*types.Var) []string {
	var out []string
	cur := f.recvType
	for i := 0; i < len(path); i++ {
		v := path[i]
		if isBaseLayer(v.Type()) {
			f.fail(n, "BaseLayer used by a serialiser")
		}
		if _, _, ok := f.g.fieldType(v.Type()); !ok {
			f.fail(n, "field %s of unsupported type %s", v.Name(), v.Type())
		}
		f.g.useField(cur, v.Name())
		out = append(out, leanField(v.Name()))
		if i+1 < len(path) {
			nt, ok := v.Type().(*types.Named)
			if !ok {
				f.fail(n, "field path through unnamed struct")
			}
			cur = nt
		}
	}
	return out
}

// checkLive: a view of the buffer may only be read while the buffer has not been written since it was taken
func (f *fn) checkLive(n ast.Node, v Val) {
	if v.Epoch > 0 && v.Epoch != f.epoch {
		f.fail(n, "view of the buffer used after the buffer was written (aliasing is not modelled)")
	}
}

func (f *fn) expr(e ast.Expr) Val {
	if tv, ok := f.info.Types[e]; ok && tv.Value != nil {
		return f.constVal(e, tv)
	}
	switch x := e.(type) {
	case *ast.ParenExpr:
		return f.expr(x.X)
	case *ast.Ident:
		obj := f.info.Uses[x]
		if why, isDead := f.dead[obj]; isDead {
			f.fail(e, "%s used %s", x.Name, why)
		}
		if v, ok := f.vars[obj]; ok {
			f.checkLive(e, v)
			return v
		}
		f.fail(e, "identifier %s", x.Name)
	case *ast.SelectorExpr:
		if path, ok := f.fieldPath(x); ok && len(path) > 0 {
			lp := f.leanPath(x, path)
			s := "r." + strings.Join(lp, ".")
			t := path[len(path)-1].Type()
			if k, n, ok := f.kindOfType(t); ok {
				return Val{S: s, K: k, N: n}
			}
			if nt, ok := t.(*types.Named); ok {
				if _, isS := nt.Underlying().(*types.Struct); isS {
					return Val{S: s, K: KStruct, T: nt, N: -1}
				}
			}
			f.fail(e, "read of field of type %s", t)
		}
		// opts.FixLengths / opts.ComputeChecksums
		if id, ok := x.X.(*ast.Ident); ok && f.optsObj != nil && f.info.Uses[id] == f.optsObj {
			switch x.Sel.Name {
			case "FixLengths":
				return Val{S: "opts.fixLengths", K: KBool, N: -1}
			case "ComputeChecksums":
				return Val{S: "opts.computeChecksums", K: KBool, N: -1}
			}
		}
		f.fail(e, "selector expression %s", types.ExprString(e))
	case *ast.IndexExpr:
		base := f.expr(x.X)
		switch base.K {
		case KWin, KBytes:
			i, c := f.natIndex(x.Index)
			if base.K == KBytes && base.N >= 0 && c >= 0 && c < base.N {
				return Val{S: fmt.Sprintf("(%s.getD %s 0)", paren(base.S), i), K: KU8, N: -1}
			}
			t := f.tmp()
			f.w("let %s ← GoEnc.getB %s %s", t, paren(base.S), paren(i))
			return Val{S: t, K: KU8, N: -1}
		}
		f.fail(e, "index into a value of unsupported kind")
	case *ast.SliceExpr:
		return f.sliceExpr(x)
	case *ast.UnaryExpr:
		v := f.expr(x.X)
		switch {
		case x.Op == token.NOT && v.K == KBool:
			return Val{S: fmt.Sprintf("(!%s)", paren(boolTerm(v))), K: KBool, N: -1}
		case x.Op == token.XOR && width(v.K) > 0:
			return Val{S: fmt.Sprintf("(~~~%s)", paren(v.S)), K: v.K, N: -1}
		case x.Op == token.SUB && width(v.K) > 0:
			return Val{S: fmt.Sprintf("(0 - %s)", paren(v.S)), K: v.K, N: -1}
		case x.Op == token.SUB && (v.K == KInt || v.K == KNat):
			return Val{S: fmt.Sprintf("(-%s)", paren(f.asInt(v))), K: KInt, N: -1}
		}
		f.fail(e, "unary operator %s", x.Op)
	case *ast.BinaryExpr:
		return f.binary(x)
	case *ast.CallExpr:
		return f.call(x)
	case *ast.CompositeLit:
		f.fail(e, "composite literal")
	}
	f.fail(e, "expression %s", types.ExprString(e))
	return Val{}
}

// sliceBounds: the Nat terms of lo and hi of a slice expression on a byte list `base` (hi defaults to its length)
func (f *fn) sliceBounds(x *ast.SliceExpr, base Val) (lo, hi string, n int) {
	if x.Slice3 {
		f.fail(x, "three-index slice expression")
	}
	lo, lc := "0", 0
	if x.Low != nil {
		lo, lc = f.natIndex(x.Low)
	}
	hi, hc := fmt.Sprintf("%s.length", paren(base.S)), -1
	if base.N >= 0 {
		hi, hc = fmt.Sprintf("%d", base.N), base.N
	}
	if x.High != nil {
		hi, hc = f.natIndex(x.High)
	}
	n = -1
	if lc >= 0 && hc >= lc {
		n = hc - lc
	}
	return lo, hi, n
}

// sliceExpr as a VALUE (read): the bytes s[lo:hi]; a bound beyond len(s) is outside the model (`overread`)
func (f *fn) sliceExpr(x *ast.SliceExpr) Val {
	// an array sliced in full is its byte list
	if t := f.info.TypeOf(x.X); t != nil {
		if _, isArr := t.Underlying().(*types.Array); isArr {
			if x.Low != nil || x.High != nil {
				f.fail(x, "partial slice of an array used as a value")
			}
			v := f.expr(x.X)
			return Val{S: v.S, K: KBytes, N: v.N}
		}
	}
	base := f.expr(x.X)
	if base.K != KBytes && base.K != KWin {
		f.fail(x, "slice expression on a value of unsupported kind")
	}
	if x.Low == nil && x.High == nil {
		return Val{S: base.S, K: KBytes, N: base.N, Epoch: base.Epoch}
	}
	lo, hi, n := f.sliceBounds(x, base)
	t := f.tmp()
	f.w("let %s ← GoEnc.slice %s %s %s", t, paren(base.S), paren(lo), paren(hi))
	ep := base.Epoch
	if base.K == KWin {
		ep = f.epoch
	}
	out := Val{S: t, K: KBytes, N: n, Epoch: ep}
	if x.High == nil && f.isBufBytesCall(x.X) {
		// `b.Bytes()[lo:]`: besides the bytes it holds now (t), the slice aliases the buffer's array from lo on
		out.View = &view{lo: f.stableNat(lo)}
	}
	return out
}

var binOps = map[token.Token]string{token.AND: "&&&", token.OR: "|||", token.XOR: "^^^", token.ADD: "+", token.SUB: "-", token.MUL: "*",
	token.EQL: "==", token.NEQ: "!=", token.LSS: "<", token.LEQ: "≤", token.GTR: ">", token.GEQ: "≥"}

func (f *fn) binary(x *ast.BinaryExpr) Val {
	if x.Op == token.LAND || x.Op == token.LOR {
		a := f.expr(x.X)
		before := len(f.lines)
		b := f.expr(x.Y)
		if len(f.lines) != before {
			f.fail(x, "index or slice expression under a short-circuit operator")
		}
		if a.K != KBool || b.K != KBool {
			f.fail(x, "logical operator on non-booleans")
		}
		op := "&&"
		if x.Op == token.LOR {
			op = "||"
		}
		return Val{S: fmt.Sprintf("(%s %s %s)", paren(boolTerm(a)), op, paren(boolTerm(b))), K: KBool, N: -1}
	}
	if x.Op == token.SHL || x.Op == token.SHR {
		a := f.expr(x.X)
		tv := f.info.Types[x.Y]
		if tv.Value == nil || width(a.K) == 0 {
			f.fail(x, "shift with a non-constant count or of a non-fixed-width value")
		}
		n, ok := constant.Int64Val(tv.Value)
		if !ok || n < 0 || int(n) >= width(a.K) {
			f.fail(x, "shift count not below the width")
		}
		op := "<<<"
		if x.Op == token.SHR {
			op = ">>>"
		}
		return Val{S: fmt.Sprintf("(%s %s (%d : %s))", paren(a.S), op, n, leanKindType(a.K)), K: a.K, N: -1}
	}
	a := f.expr(x.X)
	b := f.expr(x.Y)
	return f.binop(x, x.Op, a, b, f.info.Types[x.Y])
}

func (f *fn) binop(n ast.Node, op token.Token, a, b Val, ytv types.TypeAndValue) Val {
	lop, ok := binOps[op]
	cmp := op == token.EQL || op == token.NEQ || op == token.LSS || op == token.LEQ || op == token.GTR || op == token.GEQ
	if op == token.QUO || op == token.REM {
		// only by a positive constant (no division-by-zero panic)
		if !(b.IsConst && b.Const > 0) && (ytv.Value == nil || constant.Sign(ytv.Value) <= 0) {
			f.fail(n, "division by a non-constant")
		}
		if a.K == KInt {
			// Go truncates toward zero
			fn := "Int.tdiv"
			if op == token.REM {
				fn = "Int.tmod"
			}
			return Val{S: fmt.Sprintf("(%s %s %s)", fn, paren(a.S), paren(f.asInt(b))), K: KInt, N: -1}
		}
		lop, ok = "/", true
		if op == token.REM {
			lop = "%"
		}
	}
	if !ok {
		f.fail(n, "binary operator %s", op)
	}
	switch {
	case a.K == KBool && b.K == KBool && (op == token.EQL || op == token.NEQ):
		return Val{S: fmt.Sprintf("(%s %s %s)", paren(boolTerm(a)), lop, paren(boolTerm(b))), K: KBool, N: -1}
	case width(a.K) > 0 && a.K == b.K:
		if cmp {
			if op == token.EQL || op == token.NEQ {
				return Val{S: fmt.Sprintf("(%s %s %s)", paren(a.S), lop, paren(b.S)), K: KBool, N: -1}
			}
			return Val{S: fmt.Sprintf("%s %s %s", paren(a.S), lop, paren(b.S)), K: KBool, Prop: true, N: -1}
		}
		return Val{S: fmt.Sprintf("(%s %s %s)", paren(a.S), lop, paren(b.S)), K: a.K, N: -1}
	case (a.K == KNat || a.K == KInt) && (b.K == KNat || b.K == KInt):
		if op == token.AND || op == token.OR || op == token.XOR {
			f.fail(n, "bitwise operator on int")
		}
		bothNat := a.K == KNat && b.K == KNat
		as, bs := a.S, b.S
		if !bothNat || op == token.SUB {
			as, bs = f.asInt(a), f.asInt(b)
		}
		if cmp {
			if op == token.EQL || op == token.NEQ {
				return Val{S: fmt.Sprintf("(%s %s %s)", paren(as), lop, paren(bs)), K: KBool, N: -1}
			}
			return Val{S: fmt.Sprintf("%s %s %s", paren(as), lop, paren(bs)), K: KBool, Prop: true, N: -1}
		}
		k := KInt
		if bothNat && op != token.SUB {
			k = KNat
		}
		return Val{S: fmt.Sprintf("(%s %s %s)", paren(as), lop, paren(bs)), K: k, N: -1}
	}
	f.fail(n, "binary operator %s on kinds %d, %d", op, a.K, b.K)
	return Val{}
}
