package main

// External calls of a serialiser that become PARAMETERS of its regenerated definition (as tools/decgen/ext.go does for
// the decoder of the same layer), and views of the serialize buffer that are written through:
//
//   - `a.field.BlockSize()` on an unexported cipher.Block field that is only ever set from aes.NewCipher: the constant
//     crypto/aes.BlockSize as type-checked;
//   - `if _, err := rand.Read(w); err != nil { return err }` on the live window w: the bytes drawn are the parameter
//     `rand_Read : Option Bytes` (`none` = the read fails, the method returns the error);
//   - `mode := cipher.NewCBCEncrypter(a.field, iv)` followed at once by `mode.CryptBlocks(v, v)` where v is a local holding
//     the slice `b.Bytes()[lo:]` of the buffer: the bytes that slice holds AT THAT MOMENT are replaced, in the buffer, by
//     `field_encryptCBC iv (those bytes)` (parameter).
//
// A local holding `b.Bytes()` / `b.Bytes()[lo:]` ALIASES the buffer's array only until the next PrependBytes /
// AppendBytes (which may move the contents to a new array — defect F13: the slice to encrypt was taken before the
// PrependBytes for the IV, and a stale copy was encrypted whenever the buffer grew). Such a local is killed by every
// allocation (`killViews`): using it afterwards makes the translator give up.

import (
	"fmt"
	"go/ast"
	"go/constant"
	"go/token"
	"go/types"
	"strings"
)

// view: the local also denotes the region b.Bytes()[lo:] of the buffer's current array
type view struct {
	lo string // a Nat literal or a temporary (never rebound)
}

// externalIface: t is an interface type declared outside the module
func externalIface(t types.Type) bool {
	n, ok := t.(*types.Named)
	if !ok {
		return false
	}
	if _, isI := n.Underlying().(*types.Interface); !isI {
		return false
	}
	return n.Obj().Pkg() != nil && !strings.HasPrefix(n.Obj().Pkg().Path(), "github.com/gebn/bmc")
}

// cipherField: e is `a.field` for an unexported field of the receiver whose type is an interface from outside the module
func (f *fn) cipherField(e ast.Expr) (*types.Var, bool) {
	path, ok := f.fieldPath(e)
	if !ok || len(path) != 1 || !externalIface(path[0].Type()) {
		return nil, false
	}
	return path[0], true
}

// blockSizeCall: `a.field.BlockSize()`
func (f *fn) blockSizeCall(c *ast.CallExpr) (Val, bool) {
	se, ok := c.Fun.(*ast.SelectorExpr)
	if !ok || se.Sel.Name != "BlockSize" || len(c.Args) != 0 {
		return Val{}, false
	}
	field, ok := f.cipherField(se.X)
	if !ok {
		return Val{}, false
	}
	bs := f.g.blockSizeOfField(f, c, field)
	return Val{S: fmt.Sprintf("%d", bs), K: KNat, N: -1, IsConst: true, Const: int64(bs)}, true
}

// blockSizeOfField: the field (of type cipher.Block) of the receiver structure is set, in every loaded package of the
// module, only in keyed composite literals `T{field: c}` where c comes from `c, err := aes.NewCipher(…)` and is not
// assigned again: its BlockSize() is aes.BlockSize. The field must be unexported, so that no package other than the
// declaring one (which is loaded) can name it. A zero-value T (nil field: a nil-pointer panic in Go) is outside the
// translation.
func (g *gen) blockSizeOfField(f *fn, n ast.Node, field *types.Var) int {
	if bs, ok := g.blockSizes[field]; ok {
		return bs
	}
	if field.Exported() {
		f.fail(n, "field %s is exported (it could be set outside the module)", field.Name())
	}
	writes := 0
	for _, p := range g.modPkgs {
		info := p.TypesInfo
		for _, file := range p.Syntax {
			var curFunc *ast.FuncDecl
			ast.Inspect(file, func(m ast.Node) bool {
				switch x := m.(type) {
				case *ast.FuncDecl:
					curFunc = x
				case *ast.AssignStmt:
					for _, l := range x.Lhs {
						if se, ok := l.(*ast.SelectorExpr); ok {
							if sel := info.Selections[se]; sel != nil && sel.Obj() == field {
								f.fail(n, "field %s is assigned outside a constructor literal", field.Name())
							}
						}
					}
				case *ast.UnaryExpr:
					if x.Op == token.AND {
						if se, ok := x.X.(*ast.SelectorExpr); ok {
							if sel := info.Selections[se]; sel != nil && sel.Obj() == field {
								f.fail(n, "address of field %s taken", field.Name())
							}
						}
					}
				case *ast.CompositeLit:
					t := info.TypeOf(x)
					if t == nil {
						return true
					}
					st, ok := t.Underlying().(*types.Struct)
					if !ok {
						return true
					}
					has := false
					for i := 0; i < st.NumFields(); i++ {
						if st.Field(i) == field {
							has = true
						}
					}
					if !has {
						return true
					}
					for _, el := range x.Elts {
						kv, ok := el.(*ast.KeyValueExpr)
						if !ok {
							f.fail(n, "positional literal of the structure holding %s", field.Name())
						}
						kid, ok := kv.Key.(*ast.Ident)
						if !ok || info.Uses[kid] != field {
							continue
						}
						writes++
						vid, ok := kv.Value.(*ast.Ident)
						if !ok || curFunc == nil || !definedByAesNewCipher(info, curFunc, info.Uses[vid]) {
							f.fail(n, "field %s set from something other than aes.NewCipher", field.Name())
						}
					}
				}
				return true
			})
		}
	}
	if writes == 0 {
		f.fail(n, "field %s is never set", field.Name())
	}
	// the constant crypto/aes.BlockSize as type-checked
	bs := -1
	for _, p := range g.modPkgs {
		for path, ip := range p.Imports {
			if path == "crypto/aes" && ip.Types != nil {
				if c, ok := ip.Types.Scope().Lookup("BlockSize").(*types.Const); ok {
					if v, ok := constant.Int64Val(c.Val()); ok {
						bs = int(v)
					}
				}
			}
		}
	}
	if bs <= 0 {
		f.fail(n, "crypto/aes.BlockSize not found")
	}
	g.blockSizes[field] = bs
	return bs
}

// definedByAesNewCipher: obj is defined in fd by `obj, err := aes.NewCipher(…)` and not assigned again
func definedByAesNewCipher(info *types.Info, fd *ast.FuncDecl, obj types.Object) bool {
	if obj == nil {
		return false
	}
	defs, other := 0, 0
	ast.Inspect(fd, func(m ast.Node) bool {
		switch x := m.(type) {
		case *ast.AssignStmt:
			for i, l := range x.Lhs {
				id, ok := l.(*ast.Ident)
				if !ok {
					continue
				}
				if info.Defs[id] == obj || info.Uses[id] == obj {
					if i == 0 && len(x.Rhs) == 1 && x.Tok == token.DEFINE {
						if call, ok := x.Rhs[0].(*ast.CallExpr); ok {
							if se, ok := call.Fun.(*ast.SelectorExpr); ok {
								if fo, ok := info.Uses[se.Sel].(*types.Func); ok && fo.FullName() == "crypto/aes.NewCipher" {
									defs++
									continue
								}
							}
						}
					}
					other++
				}
			}
		case *ast.UnaryExpr:
			if x.Op == token.AND {
				if id, ok := x.X.(*ast.Ident); ok && info.Uses[id] == obj {
					other++ // its address escapes: it could be assigned through the pointer
				}
			}
		}
		return true
	})
	return defs == 1 && other == 0
}

// addParam: an external call kept as a parameter of the layer's definition; each at most once per definition (a second
// call would need a parameter of its own: a second draw, a block mode that carries its chaining value over)
func (f *fn) addParam(n ast.Node, name, typ, what string) {
	if f.isCallee || f.pure || f.bufObj == nil {
		f.fail(n, "external call inside a helper")
	}
	if f.inLoop > 0 || f.inJoin > 0 {
		f.fail(n, "external call inside a loop or a conditional that control flows out of")
	}
	for _, o := range f.opaques {
		if o.name == name {
			f.fail(n, "second call standing for the parameter %s", name)
		}
	}
	f.opaques = append(f.opaques, opaque{name, typ, what})
}

// killViews: locals aliasing the buffer's array must not be used after an allocation (the contents may have moved)
func (f *fn) killViews(why string) {
	for o, v := range f.vars {
		if v.View != nil {
			f.dead[o] = why
			delete(f.vars, o)
		}
	}
}

// stableNat: a Nat term that later rebindings cannot change the meaning of (a literal, or a fresh temporary)
func (f *fn) stableNat(s string) string {
	isLit := s != ""
	for _, c := range s {
		if c < '0' || c > '9' {
			isLit = false
		}
	}
	if isLit {
		return s
	}
	t := f.tmp()
	f.w("let %s : Nat := %s", t, s)
	return t
}

// isBufBytesCall: e is `b.Bytes()` on the buffer parameter
func (f *fn) isBufBytesCall(e ast.Expr) bool {
	c, ok := e.(*ast.CallExpr)
	if !ok {
		return false
	}
	name, isBuf := f.bufMethod(c)
	return isBuf && name == "Bytes" && len(c.Args) == 0
}

// randRead: `if _, err := rand.Read(w); err != nil { return err }` for the live window w (io.ReadFull on crypto/rand's
// Reader: err == nil iff all len(w) bytes were filled)
func (f *fn) randRead(s *ast.IfStmt, as *ast.AssignStmt, call *ast.CallExpr) {
	if as.Tok != token.DEFINE || len(as.Lhs) != 2 || len(call.Args) != 1 {
		f.fail(s, "rand.Read form")
	}
	if id, ok := as.Lhs[0].(*ast.Ident); !ok || id.Name != "_" {
		f.fail(s, "rand.Read whose byte count is used")
	}
	errId, ok := as.Lhs[1].(*ast.Ident)
	if !ok || errId.Name == "_" {
		f.fail(s, "rand.Read whose error is not propagated at once")
	}
	errObj := f.info.Defs[errId]
	if errObj == nil || s.Else != nil || !f.isErrNotNil(s.Cond, errObj) || !f.isPropagate(s.Body, errObj) {
		f.fail(s, "rand.Read whose error is not propagated at once")
	}
	id, ok := call.Args[0].(*ast.Ident)
	if !ok {
		f.fail(call, "rand.Read into something other than the live window")
	}
	v := f.expr(id)
	if v.K != KWin || f.win == nil || f.info.Uses[id] != f.win.obj {
		f.fail(call, "rand.Read into something other than the live window")
	}
	f.addParam(call, "rand_Read", "Option Bytes",
		"what `crypto/rand.Read` (io.ReadFull on the system's entropy source) does to the slice it is given: `some bs` = it fills the slice with the bytes `bs` drawn (len(slice) of them) and returns a nil error, `none` = it returns an error, which the method returns at once")
	f.w("let %s ← GoEnc.randRead rand_Read %s", f.win.name, f.win.name)
	f.wroteWindow()
}

// cbcEncryptInPlace: `mode := cipher.NewCBCEncrypter(a.field, iv)` followed at once by `mode.CryptBlocks(v, v)`, v a local
// that aliases `b.Bytes()[lo:]`. Returns after emitting the update of the buffer (window included).
func (f *fn) cbcEncryptInPlace(as *ast.AssignStmt, newCall *ast.CallExpr, rest []ast.Stmt) {
	if as.Tok != token.DEFINE || len(as.Lhs) != 1 || len(newCall.Args) != 2 {
		f.fail(as, "cipher.NewCBCEncrypter form")
	}
	mid, ok := as.Lhs[0].(*ast.Ident)
	if !ok || mid.Name == "_" {
		f.fail(as, "cipher.NewCBCEncrypter form")
	}
	modeObj := f.info.Defs[mid]
	field, ok := f.cipherField(newCall.Args[0])
	if !ok {
		f.fail(as, "cipher.NewCBCEncrypter on something other than a field of the receiver")
	}
	bs := f.g.blockSizeOfField(f, as, field)
	iv := f.expr(newCall.Args[1]) // NewCBCEncrypter copies the IV: its bytes at this moment
	if iv.K != KWin && iv.K != KBytes {
		f.fail(as, "IV of unsupported kind")
	}
	if len(rest) == 0 {
		f.fail(as, "cipher.NewCBCEncrypter not followed at once by CryptBlocks")
	}
	es, ok := rest[0].(*ast.ExprStmt)
	if !ok {
		f.fail(as, "cipher.NewCBCEncrypter not followed at once by CryptBlocks")
	}
	call, ok := es.X.(*ast.CallExpr)
	if !ok || len(call.Args) != 2 {
		f.fail(as, "cipher.NewCBCEncrypter not followed at once by CryptBlocks")
	}
	se, ok := call.Fun.(*ast.SelectorExpr)
	if !ok || se.Sel.Name != "CryptBlocks" {
		f.fail(as, "cipher.NewCBCEncrypter not followed at once by CryptBlocks")
	}
	if id, ok := se.X.(*ast.Ident); !ok || modeObj == nil || f.info.Uses[id] != modeObj {
		f.fail(as, "cipher.NewCBCEncrypter not followed at once by CryptBlocks")
	}
	// the block mode (which carries the chaining value over) must not be used again
	uses := 0
	ast.Inspect(f.src.decl.Body, func(n ast.Node) bool {
		if id, ok := n.(*ast.Ident); ok && f.info.Uses[id] == modeObj {
			uses++
		}
		return true
	})
	if uses != 1 {
		f.fail(as, "the block mode is used more than once")
	}
	dst, ok1 := call.Args[0].(*ast.Ident)
	src, ok2 := call.Args[1].(*ast.Ident)
	if !ok1 || !ok2 {
		f.fail(call, "CryptBlocks on something other than a local holding b.Bytes()[lo:]")
	}
	obj := f.info.Uses[dst]
	if obj == nil || f.info.Uses[src] != obj {
		f.fail(call, "CryptBlocks whose destination is not its source")
	}
	if why, isDead := f.dead[obj]; isDead {
		f.fail(call, "%s used %s", dst.Name, why)
	}
	v, known := f.vars[obj]
	if !known || v.View == nil {
		f.fail(call, "CryptBlocks on something other than a local holding b.Bytes()[lo:]")
	}
	pname := leanField(field.Name()) + "_encryptCBC"
	f.addParam(call, pname, "Bytes → Bytes → Bytes",
		fmt.Sprintf("`cipher.NewCBCEncrypter(x.%s, iv).CryptBlocks(dst, src)`: the ciphertext as a function of the IV and the plaintext, i.e. of the bytes `iv` and `src` hold at the time of the call (the block cipher in x.%s, set only from aes.NewCipher in the module, hence BlockSize() = %d, is not modelled; a receiver whose %s is nil is outside the translation)",
			field.Name(), field.Name(), bs, field.Name()))
	whole := f.bufferBytes().S
	t := f.tmp()
	f.w("-- %s = b.Bytes()[%s:] of the buffer's present array (no PrependBytes / AppendBytes since it was taken): encrypted where it lies", dst.Name, v.View.lo)
	f.w("let %s ← GoEnc.cryptBlocksInPlace %s %d %s %s %s", t, pname, bs, paren(iv.S), whole, v.View.lo)
	switch {
	case f.win == nil:
		f.bind("buf", "Bytes", t, false)
	case f.win.append:
		f.bind(f.win.name, "Bytes", fmt.Sprintf("%s.drop buf.length", t), false)
		f.bind("buf", "Bytes", fmt.Sprintf("%s.take buf.length", t), false)
	default:
		f.bind("buf", "Bytes", fmt.Sprintf("%s.drop %s.length", t, f.win.name), false)
		f.bind(f.win.name, "Bytes", fmt.Sprintf("%s.take %s.length", t, f.win.name), false)
	}
	f.epoch++
}
