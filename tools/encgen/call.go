package main

import (
	"fmt"
	"go/ast"
	"go/constant"
	"go/types"
	"strings"
)

// calleeOf: the *types.Func a call expression invokes statically (nil for builtins, conversions, interface calls)
func (f *fn) calleeOf(c *ast.CallExpr) *types.Func {
	switch fun := c.Fun.(type) {
	case *ast.Ident:
		fnObj, _ := f.info.Uses[fun].(*types.Func)
		return fnObj
	case *ast.SelectorExpr:
		if sel := f.info.Selections[fun]; sel != nil {
			if sel.Kind() == types.MethodVal {
				if _, isIface := sel.Recv().Underlying().(*types.Interface); isIface {
					return nil
				}
				fnObj, _ := sel.Obj().(*types.Func)
				return fnObj
			}
			return nil
		}
		fnObj, _ := f.info.Uses[fun.Sel].(*types.Func) // pkg.Func
		return fnObj
	}
	return nil
}

func fullName(fnObj *types.Func) string {
	if fnObj == nil {
		return ""
	}
	return fnObj.FullName()
}

// bufMethod: the call is b.<name>(…) on the serialize buffer parameter
func (f *fn) bufMethod(c *ast.CallExpr) (string, bool) {
	se, ok := c.Fun.(*ast.SelectorExpr)
	if !ok {
		return "", false
	}
	id, ok := se.X.(*ast.Ident)
	if !ok || f.bufObj == nil || f.info.Uses[id] != f.bufObj {
		return "", false
	}
	return se.Sel.Name, true
}

// bufferBytes: the term for b.Bytes() — everything the buffer holds now, the live window included
func (f *fn) bufferBytes() Val {
	s := "buf"
	if f.win != nil {
		if f.win.append {
			s = fmt.Sprintf("(buf ++ %s)", f.win.name)
		} else {
			s = fmt.Sprintf("(%s ++ buf)", f.win.name)
		}
	}
	return Val{S: s, K: KBytes, N: -1, Epoch: f.epoch, View: &view{lo: "0"}}
}

func (f *fn) call(c *ast.CallExpr) Val {
	// conversions
	if tv, ok := f.info.Types[c.Fun]; ok && tv.IsType() {
		return f.conversion(c, tv.Type)
	}
	if name, ok := f.bufMethod(c); ok {
		if name == "Bytes" && len(c.Args) == 0 {
			return f.bufferBytes()
		}
		f.fail(c, "call of %s on the buffer in an expression", name)
	}
	if id, ok := c.Fun.(*ast.Ident); ok {
		if _, isBuiltin := f.info.Uses[id].(*types.Builtin); isBuiltin {
			switch id.Name {
			case "len":
				v := f.expr(c.Args[0])
				switch v.K {
				case KBytes, KWin:
					if v.N >= 0 {
						return Val{S: fmt.Sprintf("%d", v.N), K: KNat, N: -1}
					}
					return Val{S: fmt.Sprintf("%s.length", paren(v.S)), K: KNat, N: -1}
				}
				f.fail(c, "len of a value of unsupported kind")
			}
			f.fail(c, "builtin %s in an expression", id.Name)
		}
	}
	if v, ok := f.blockSizeCall(c); ok {
		return v
	}
	callee := f.calleeOf(c)
	if callee == nil {
		f.fail(c, "call of %s (not a statically known function)", types.ExprString(c.Fun))
	}
	// a method of the receiver (or of a struct inside it) that returns one value and no error, reading only
	if se, ok := c.Fun.(*ast.SelectorExpr); ok {
		if path, rooted := f.fieldPath(se.X); rooted {
			if sel := f.info.Selections[se]; sel != nil && sel.Kind() == types.MethodVal {
				if _, isStruct := derefNamedStruct(sel.Recv()); isStruct {
					return f.readerCall(c, callee, path)
				}
			}
		}
	}
	// a pure helper: value receiver or package-level function, basic parameters, one basic result
	return f.pureOrOpaque(c, callee)
}

// pureOrOpaque: translate the helper; if it lies outside the language (floating point, interface calls) and it is a
// package-level function that can only compute a value from its arguments, keep it as an UNINTERPRETED function
// parameter of the layer's definition
func (f *fn) pureOrOpaque(c *ast.CallExpr, callee *types.Func) (out Val) {
	nLines, nTmp := len(f.lines), f.ntmp
	before := map[string]bool{}
	for k := range f.g.inProgress {
		before[k] = true
	}
	reason := ""
	func() {
		defer func() {
			if r := recover(); r != nil {
				if gu, ok := r.(giveUp); ok {
					reason = gu.msg
					return
				}
				panic(r)
			}
		}()
		out = f.pureCall(c, callee)
	}()
	if reason == "" {
		return out
	}
	f.lines, f.ntmp = f.lines[:nLines], nTmp
	for k := range f.g.inProgress {
		if !before[k] {
			delete(f.g.inProgress, k)
		}
	}
	return f.opaqueCall(c, callee, reason)
}

type opaque struct {
	name, typ, what string
}

func isInterface(t types.Type) bool {
	_, ok := t.Underlying().(*types.Interface)
	return ok
}

// opaqueCall: `g(args)` for a package-level g the translator cannot translate. Accepted only where g can do nothing but
// compute its result: no receiver, no mention of package-level variables, no go / defer / channel operation, no
// assignment through (or copy into) a parameter; arguments are values (copied) or byte sequences (read) or
// interface-valued fields of the layer (which then belong to the function's identity: "g applied to the layer's F").
func (f *fn) opaqueCall(c *ast.CallExpr, callee *types.Func, reason string) Val {
	fail := func(why string) {
		f.fail(c, "%s; and %s cannot be kept as an uninterpreted function: %s", reason, callee.FullName(), why)
	}
	if f.isCallee || f.bufObj == nil || f.pure {
		fail("call inside a helper")
	}
	src, ok := f.g.funcs[callee]
	if !ok {
		fail("no source")
	}
	sig := callee.Type().(*types.Signature)
	if sig.Recv() != nil || sig.Results().Len() != 1 || sig.Variadic() {
		fail("not a package-level function with one result")
	}
	rk, _, ok := f.kindOfType(sig.Results().At(0).Type())
	if !ok {
		fail("result type")
	}
	// the callee's body
	params := map[types.Object]bool{}
	for _, p := range src.decl.Type.Params.List {
		for _, id := range p.Names {
			params[src.pkg.TypesInfo.Defs[id]] = true
		}
	}
	bad := ""
	rootParam := func(e ast.Expr) bool {
		for {
			switch x := e.(type) {
			case *ast.IndexExpr:
				e = x.X
				continue
			case *ast.SliceExpr:
				e = x.X
				continue
			case *ast.StarExpr:
				e = x.X
				continue
			case *ast.SelectorExpr:
				e = x.X
				continue
			case *ast.ParenExpr:
				e = x.X
				continue
			}
			break
		}
		id, ok := e.(*ast.Ident)
		return ok && params[src.pkg.TypesInfo.Uses[id]]
	}
	ast.Inspect(src.decl.Body, func(n ast.Node) bool {
		switch x := n.(type) {
		case *ast.Ident:
			if v, ok := src.pkg.TypesInfo.Uses[x].(*types.Var); ok && v.Pkg() != nil && v.Parent() == v.Pkg().Scope() {
				bad = "mentions the package-level variable " + x.Name
			}
		case *ast.GoStmt, *ast.DeferStmt, *ast.SendStmt, *ast.SelectStmt:
			bad = "go / defer / channel statement"
		case *ast.UnaryExpr:
			if x.Op.String() == "<-" || x.Op.String() == "&" {
				bad = "operator " + x.Op.String()
			}
		case *ast.AssignStmt:
			for _, l := range x.Lhs {
				if _, isId := l.(*ast.Ident); !isId && rootParam(l) {
					bad = "assigns through a parameter"
				}
			}
		case *ast.IncDecStmt:
			if _, isId := x.X.(*ast.Ident); !isId && rootParam(x.X) {
				bad = "assigns through a parameter"
			}
		case *ast.CallExpr:
			if id, ok := x.Fun.(*ast.Ident); ok && id.Name == "copy" && len(x.Args) == 2 && rootParam(x.Args[0]) {
				bad = "copies into a parameter"
			}
		}
		return bad == ""
	})
	if bad != "" {
		fail(bad)
	}
	name := callee.Pkg().Name() + "_" + callee.Name()
	var argTypes, args, what []string
	for i, a := range c.Args {
		if path, ok := f.fieldPath(a); ok && len(path) > 0 && isInterface(path[len(path)-1].Type()) {
			name += "_" + leanField(path[len(path)-1].Name())
			what = append(what, "the layer's "+path[len(path)-1].Name())
			continue
		}
		v := f.expr(a)
		switch v.K {
		case KU8, KU16, KU32, KU64, KBool, KBytes:
			argTypes = append(argTypes, leanKindType(v.K))
			args = append(args, paren(boolOr(v)))
		case KNat, KInt:
			pk, _, _ := f.kindOfType(sig.Params().At(i).Type())
			if pk != KInt {
				fail("argument kind")
			}
			argTypes = append(argTypes, "Int")
			args = append(args, paren(f.asInt(v)))
		default:
			fail("argument kind")
		}
	}
	if len(args) == 0 {
		fail("no value argument")
	}
	typ := strings.Join(append(argTypes, leanKindType(rk)), " → ")
	found := false
	for _, o := range f.opaques {
		if o.name == name {
			found = true
		}
	}
	if !found {
		desc := callee.FullName()
		if len(what) > 0 {
			desc += " applied to " + strings.Join(what, ", ")
		}
		f.opaques = append(f.opaques, opaque{name, typ, desc + " (not translated: " + reason + ")"})
	}
	return Val{S: fmt.Sprintf("(%s %s)", name, strings.Join(args, " ")), K: rk, N: -1}
}

func boolOr(v Val) string {
	if v.K == KBool {
		return boolTerm(v)
	}
	return v.S
}

func derefNamedStruct(t types.Type) (*types.Named, bool) {
	if p, ok := t.(*types.Pointer); ok {
		t = p.Elem()
	}
	n, ok := t.(*types.Named)
	if !ok {
		return nil, false
	}
	_, isS := n.Underlying().(*types.Struct)
	return n, isS
}

func (f *fn) conversion(c *ast.CallExpr, to types.Type) Val {
	arg := c.Args[0]
	k, _, ok := f.kindOfType(to)
	if !ok {
		f.fail(c, "conversion to %s", to)
	}
	v := f.expr(arg)
	switch {
	case k == KBytes && v.K == KBytes: // string <-> []byte: the same bytes
		if _, isArr := to.Underlying().(*types.Array); isArr {
			f.fail(c, "conversion to an array")
		}
		return Val{S: v.S, K: KBytes, N: v.N, Epoch: v.Epoch}
	case k == KBytes || v.K == KBytes || v.K == KWin:
		f.fail(c, "conversion between a byte sequence and %s", to)
	case k == v.K:
		return v
	case width(k) > 0 && width(v.K) > 0:
		return Val{S: fmt.Sprintf("(%s).to%s", v.S, leanKindType(k)), K: k, N: -1}
	case width(k) > 0 && v.K == KNat:
		return Val{S: fmt.Sprintf("(%s.ofNat %s)", leanKindType(k), paren(v.S)), K: k, N: -1}
	case width(k) > 0 && v.K == KInt:
		// the low bits of the two's-complement representation
		return Val{S: fmt.Sprintf("(%s.ofInt %s)", leanKindType(k), paren(v.S)), K: k, N: -1}
	case k == KInt && width(v.K) > 0 && width(v.K) < 64:
		return Val{S: fmt.Sprintf("(%s).toNat", v.S), K: KNat, N: -1}
	case k == KInt && (v.K == KNat || v.K == KInt):
		return v
	}
	f.fail(c, "conversion from kind %d to %s", v.K, to)
	return Val{}
}

// readerCall: `r.m(args)` / `r.F.m(args)` where m has a struct receiver, one result, no error, and assigns nothing of
// its receiver: translated (once) into a monadic Lean definition `T.m : T → … → R K`
func (f *fn) readerCall(c *ast.CallExpr, callee *types.Func, path []*types.Var) Val {
	src, ok := f.g.funcs[callee]
	if !ok {
		f.fail(c, "call of %s: no source", callee.FullName())
	}
	sig := callee.Type().(*types.Signature)
	if sig.Results().Len() != 1 {
		f.fail(c, "call of %s in an expression", callee.FullName())
	}
	rk, _, ok := f.kindOfType(sig.Results().At(0).Type())
	if !ok || rk == KBytes {
		f.fail(c, "call of %s: result type %s", callee.FullName(), sig.Results().At(0).Type())
	}
	recvNamed, _ := derefNamedStruct(sig.Recv().Type())
	se := c.Fun.(*ast.SelectorExpr)
	sel := f.info.Selections[se]
	t := f.info.TypeOf(se.X)
	idx := sel.Index()
	for _, i := range idx[:len(idx)-1] {
		if p, ok := t.Underlying().(*types.Pointer); ok {
			t = p.Elem()
		}
		st := t.Underlying().(*types.Struct)
		path = append(path, st.Field(i))
		t = st.Field(i).Type()
	}
	recv := "r"
	if len(path) > 0 {
		recv = "r." + strings.Join(f.leanPath(c, path), ".")
	}
	var args []string
	for i, a := range c.Args {
		v := f.expr(a)
		if v.K == KStruct {
			f.fail(c, "struct argument")
		}
		args = append(args, paren(argTerm(f, v, sig.Params().At(i).Type())))
	}
	name := leanTypeName(recvNamed) + "." + callee.Name()
	if _, done := f.g.defs[name]; !done {
		if f.g.inProgress[name] {
			f.fail(c, "recursive call of %s", callee.FullName())
		}
		f.g.inProgress[name] = true
		f.g.useField(recvNamed, "")
		h := f.g.newFn(src, recvNamed)
		if h.recvObj == nil {
			f.fail(c, "call of %s: unnamed receiver", callee.FullName())
		}
		pdecl := h.bindParams(src.decl.Type.Params.List)
		if h.bufObj != nil {
			f.fail(c, "call of %s: takes the buffer", callee.FullName())
		}
		if h.assignsReceiver(src.decl.Body) {
			f.fail(c, "call of %s in an expression: it assigns its receiver", callee.FullName())
		}
		h.results = []Kind{rk}
		func() {
			defer func() {
				if r := recover(); r != nil {
					if gu, ok := r.(giveUp); ok {
						panic(giveUp{fmt.Sprintf("%s (in %s)", gu.msg, callee.FullName())})
					}
					panic(r)
				}
			}()
			h.block(src.decl.Body.List, 1, nil)
		}()
		pos := src.pkg.Fset.Position(src.decl.Pos())
		text := fmt.Sprintf("/-- translated from `%s` (%s) -/\ndef %s (r : %s) %s: R %s := do\n%s\n", callee.FullName(), shortFile(pos.Filename),
			name, leanTypeName(recvNamed), joinSp(pdecl), leanKindType(rk), strings.Join(h.lines, "\n"))
		f.g.defs[name] = text
		f.g.defOrder = append(f.g.defOrder, name)
		delete(f.g.inProgress, name)
	}
	t2 := f.tmp()
	f.w("%s", strings.TrimRight(fmt.Sprintf("let %s ← %s %s %s", t2, name, recv, strings.Join(args, " ")), " "))
	return Val{S: t2, K: rk, N: -1}
}

// pureCall: translate (once) a loop-free helper without side effects into a Lean definition and apply it
func (f *fn) pureCall(c *ast.CallExpr, callee *types.Func) Val {
	src, ok := f.g.funcs[callee]
	if !ok {
		f.fail(c, "call of %s: no source", callee.FullName())
	}
	sig := callee.Type().(*types.Signature)
	if sig.Results().Len() != 1 {
		f.fail(c, "call of %s in an expression", callee.FullName())
	}
	if sig.Recv() != nil {
		if _, isPtr := sig.Recv().Type().(*types.Pointer); isPtr {
			f.fail(c, "call of pointer-receiver method %s in an expression", callee.FullName())
		}
	}
	rk, rn, ok := f.kindOfType(sig.Results().At(0).Type())
	if !ok || rk == KBytes {
		f.fail(c, "call of %s: result type %s", callee.FullName(), sig.Results().At(0).Type())
	}
	name := callee.Pkg().Name() + "_" + callee.Name()
	if sig.Recv() != nil {
		if n, ok := sig.Recv().Type().(*types.Named); ok {
			name = n.Obj().Name() + "_" + callee.Name()
		}
	}
	var args []string
	if sig.Recv() != nil {
		se := c.Fun.(*ast.SelectorExpr)
		v := f.expr(se.X)
		if v.K == KBytes || v.K == KWin || v.K == KStruct {
			f.fail(c, "receiver of %s", callee.FullName())
		}
		args = append(args, paren(argTerm(f, v, sig.Recv().Type())))
	}
	for i, a := range c.Args {
		v := f.expr(a)
		if v.K == KStruct {
			f.fail(c, "argument of %s", callee.FullName())
		}
		args = append(args, paren(argTerm(f, v, sig.Params().At(i).Type())))
	}
	if _, done := f.g.defs[name]; !done {
		if f.g.inProgress[name] {
			f.fail(c, "recursive call of %s", callee.FullName())
		}
		f.g.inProgress[name] = true
		h := f.g.newFn(src, nil)
		h.pure = true
		var ps []string
		bind := func(id *ast.Ident) {
			obj := h.info.Defs[id]
			k, n, ok := h.kindOfType(obj.Type())
			if !ok {
				f.fail(c, "call of %s: parameter type %s", callee.FullName(), obj.Type())
			}
			// a helper that only ranges over a slice sees its len(…) bytes
			h.vars[obj] = Val{S: h.nameOf(obj), K: k, N: n}
			ps = append(ps, fmt.Sprintf("(%s : %s)", h.nameOf(obj), leanKindType(k)))
		}
		if src.decl.Recv != nil {
			if len(src.decl.Recv.List[0].Names) != 1 {
				f.fail(c, "call of %s: unnamed receiver", callee.FullName())
			}
			bind(src.decl.Recv.List[0].Names[0])
		}
		for _, p := range src.decl.Type.Params.List {
			for _, id := range p.Names {
				bind(id)
			}
		}
		h.results = []Kind{rk}
		func() {
			defer func() {
				if r := recover(); r != nil {
					if gu, ok := r.(giveUp); ok {
						panic(giveUp{fmt.Sprintf("%s (in helper %s)", gu.msg, callee.FullName())})
					}
					panic(r)
				}
			}()
			h.pureBlock(src.decl.Body.List, 1, rk)
		}()
		pos := src.pkg.Fset.Position(src.decl.Pos())
		text := fmt.Sprintf("/-- translated from `%s` (%s) -/\ndef %s %s : %s :=\n%s\n", callee.FullName(), shortFile(pos.Filename), name,
			strings.Join(ps, " "), leanKindType(rk), strings.Join(h.lines, "\n"))
		f.g.defs[name] = text
		f.g.defOrder = append(f.g.defOrder, name)
		delete(f.g.inProgress, name)
	}
	return Val{S: fmt.Sprintf("(%s %s)", name, strings.Join(args, " ")), K: rk, N: rn}
}

// argTerm: v passed where Go type t is expected (KNat where int is expected becomes Int)
func argTerm(f *fn, v Val, t types.Type) string {
	k, _, _ := f.kindOfType(t)
	if k == KInt {
		return f.asInt(v)
	}
	return v.S
}

// pureBlock: `v := e`, `if c { return e }`, `return e`, single-accumulator range folds — no indexing, no receiver
func (f *fn) pureBlock(stmts []ast.Stmt, ind int, rk Kind) {
	f.ind = ind
	for i, s := range stmts {
		before := len(f.lines)
		switch s := s.(type) {
		case *ast.AssignStmt:
			if len(s.Lhs) != 1 || len(s.Rhs) != 1 {
				f.fail(s, "multiple assignment")
			}
			id, ok := s.Lhs[0].(*ast.Ident)
			if !ok {
				f.fail(s, "assignment to a non-variable")
			}
			f.localAssign(s, id, s.Tok.String(), s.Rhs[0])
		case *ast.IfStmt:
			if s.Init != nil || s.Else != nil || len(s.Body.List) != 1 {
				f.fail(s, "if statement form in a pure helper")
			}
			ret, ok := s.Body.List[0].(*ast.ReturnStmt)
			if !ok || len(ret.Results) != 1 {
				f.fail(s, "if statement form in a pure helper")
			}
			c := f.expr(s.Cond)
			v := f.expr(ret.Results[0])
			f.w("if %s then %s else", c.S, f.coerce(ret, v, rk))
		case *ast.RangeStmt:
			f.rangeFold(s)
		case *ast.SwitchStmt:
			// `switch tag { case c: return e … [default: return e] }`
			if s.Init != nil || s.Tag == nil {
				f.fail(s, "switch form in a pure helper")
			}
			tag := f.expr(s.Tag)
			if width(tag.K) == 0 {
				f.fail(s, "switch tag of unsupported kind")
			}
			for ci, cl := range s.Body.List {
				cc := cl.(*ast.CaseClause)
				if len(cc.Body) != 1 {
					f.fail(cc, "switch clause form in a pure helper")
				}
				ret, ok := cc.Body[0].(*ast.ReturnStmt)
				if !ok || len(ret.Results) != 1 {
					f.fail(cc, "switch clause form in a pure helper")
				}
				v := f.expr(ret.Results[0])
				if cc.List == nil {
					if ci != len(s.Body.List)-1 {
						f.fail(cc, "default clause that is not last")
					}
					f.w("%s", f.coerce(ret, v, rk))
					if i != len(stmts)-1 {
						f.fail(s, "statements after a switch with a default clause")
					}
					return
				}
				var alts []string
				for _, e := range cc.List {
					cv := f.expr(e)
					if cv.K != tag.K {
						f.fail(e, "case expression")
					}
					alts = append(alts, fmt.Sprintf("%s == %s", paren(tag.S), cv.S))
				}
				f.w("if (%s) then %s else", strings.Join(alts, " || "), f.coerce(ret, v, rk))
			}
		case *ast.ReturnStmt:
			if len(s.Results) != 1 || i != len(stmts)-1 {
				f.fail(s, "return form in a pure helper")
			}
			v := f.expr(s.Results[0])
			f.w("%s", f.coerce(s, v, rk))
			for _, l := range f.lines[before:] {
				if strings.Contains(l, "←") {
					f.fail(s, "indexing in a pure helper")
				}
			}
			return
		default:
			f.fail(s, "statement in a pure helper")
		}
		for _, l := range f.lines[before:] {
			if strings.Contains(l, "←") {
				f.fail(s, "indexing in a pure helper")
			}
		}
	}
	panic(giveUp{"pure helper without a final return"})
}

// coerce v to the kind want (KNat → KInt only)
func (f *fn) coerce(n ast.Node, v Val, want Kind) string {
	if v.K == want {
		if v.K == KBool {
			return boolTerm(v)
		}
		return v.S
	}
	if want == KInt && v.K == KNat {
		return f.asInt(v)
	}
	f.fail(n, "value of kind %d where kind %d is expected", v.K, want)
	return ""
}

func constInt(info *types.Info, e ast.Expr) (int64, bool) {
	if tv, ok := info.Types[e]; ok && tv.Value != nil && tv.Value.Kind() == constant.Int {
		return constant.Int64Val(tv.Value)
	}
	return 0, false
}

// rangeFold: `for _, b := range bytes { acc op= e }` as a left fold over the byte list
func (f *fn) rangeFold(s *ast.RangeStmt) {
	if s.Key != nil {
		if id, ok := s.Key.(*ast.Ident); !ok || id.Name != "_" {
			f.fail(s, "range loop with an index variable")
		}
	}
	vid, ok := s.Value.(*ast.Ident)
	if !ok || s.Tok.String() != ":=" {
		f.fail(s, "range loop form")
	}
	over := f.expr(s.X)
	if over.K != KBytes {
		f.fail(s, "range over a value of unsupported kind")
	}
	if len(s.Body.List) != 1 {
		f.fail(s, "range loop body with more than one statement")
	}
	as, ok := s.Body.List[0].(*ast.AssignStmt)
	if !ok || len(as.Lhs) != 1 || len(as.Rhs) != 1 {
		f.fail(s, "range loop body")
	}
	accId, ok := as.Lhs[0].(*ast.Ident)
	if !ok {
		f.fail(s, "range loop body")
	}
	accObj := f.info.Uses[accId]
	acc, known := f.vars[accObj]
	if !known || width(acc.K) == 0 {
		f.fail(s, "range loop accumulator")
	}
	vobj := f.info.Defs[vid]
	vname := f.nameOf(vobj)
	f.vars[vobj] = Val{S: vname, K: KU8, N: -1}
	// translate the body into a scratch buffer: it must be a single `let acc := …`
	saved := f.lines
	f.lines = nil
	f.localAssign(as, accId, as.Tok.String(), as.Rhs[0])
	body := f.lines
	f.lines = saved
	if len(body) != 1 || f.vars[accObj].K != acc.K {
		f.fail(s, "range loop body")
	}
	rhs := body[0][strings.Index(body[0], ":= ")+3:]
	f.w("let %s : %s := List.foldl (fun %s %s => %s) %s %s", acc.S, leanKindType(acc.K), acc.S, vname, rhs, acc.S, paren(over.S))
}
