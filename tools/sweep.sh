#!/bin/sh
# sweep.sh <tier> <seed>… — for use under `vp run`: unchanged-tree runs of every check for the given seeds; prints one
# line per run and every VIOLATION line (there must be none)
cd "$(dirname "$0")/.."
tier=$1; shift
./setup.sh > setup.log 2>&1 || { tail -30 setup.log; exit 2; }
for s in "$@"; do
  for p in C01 C02 C03 C04 C05 C06 C07 C08 C09 C10 C11 C12 C13 C14 C15 C16 C17 C18 C19 C20; do
    ./check $p --tier $tier --seed $s 2>/dev/null | grep "VIOLATION\|KNOWN\| OK \| FAIL "
  done
done
echo sweep done
