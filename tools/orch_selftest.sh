#!/bin/sh
# self-test of the orchestration translator (tools/decgen -orch, DESIGN.md §2.2 T2e) on scratch copies of /repo under /tmp:
# one harmless refactor (locals renamed in all eight functions: every check must stay OK) and five seeded changes (each must
# break its F_gen_eq and give a failing input); the scratch copies are removed and the checks re-run on the unchanged /repo.
ROOT=$(cd "$(dirname "$0")/.." && pwd); export ROOT
export GOFLAGS=-mod=mod GOPROXY=off GOSUMDB=off GOTOOLCHAIN=local
cd /tmp && rm -rf orch_a orch_b orch_c orch_d orch_e orch_h
for x in a b c d e h; do cp -a /repo orch_$x; done
sed -i 's/len(recordIDs) == 255 {/len(recordIDs) >= 254 {/' orch_a/pkg/dcmi/sensor_info.go
sed -i 's/Req.ListIndex == 63 ||/Req.ListIndex == 62 ||/' orch_b/cipher_suites.go
sed -i 's/if header.Length > sdrMaxLength {/if header.Length >= sdrMaxLength {/' orch_d/sdr_repository.go
sed -i 's/initialInfo.LastErase.Before(finalInfo.LastErase)/finalInfo.LastErase.Before(initialInfo.LastErase)/' orch_e/sdr_repository.go
python3 - <<'PY'
p='/tmp/orch_c/v2session_new.go'
s=open(p).read()
old=s[s.index("	// assume all will be unique"):s.index("	return nil, ErrNoSupportedCipherSuite")]
new='''	for _, suite := range supportedSuites {
		for _, desiredSuite := range desiredSuites {
			if suite.CipherSuite == desiredSuite {
				return &desiredSuite, nil
			}
		}
	}
'''
open(p,'w').write(s.replace(old,new))
p='/tmp/orch_h/pkg/dcmi/sensor_info.go'
s=open(p).read()
i=s.index("func getEntityInstances(")
body=s[i:].replace("recordIDs","collected").replace("totalInstances","wanted").replace("recordID","oneID")
s=s[:i]+body
s=s.replace("for _, entityID := range entities","for _, ent := range entities").replace("cmd.Req.Entity = entityID","cmd.Req.Entity = ent").replace("sensors[entityID] = recordIDs","sensors[ent] = recordIDs")
s=s.replace("	entries := 0\n	for _, v := range m {\n		entries += len(v)\n	}\n	return entries","	total := 0\n	for _, ids := range m {\n		total += len(ids)\n	}\n	return total")
open(p,'w').write(s)
p='/tmp/orch_h/cipher_suites.go'
s=open(p).read()
i=s.index("func RetrieveSupportedCipherSuites("); j=s.index("// parseCipherSuiteRecordData interprets")
s=s[:i]+s[i:j].replace("getChannelCipherSuitesCmd","listCmd").replace("cipherSuiteRecordData","joinedChunks")+s[j:]
open(p,'w').write(s)
p='/tmp/orch_h/v2session_new.go'
s=open(p).read()
i=s.index("func (s *V2SessionlessTransport) determineCipherSuite(")
body=s[i:].replace("distinctSupportedSuites","advertised").replace("desiredSuite,","wanted,").replace("desiredSuite]","wanted]").replace("&desiredSuite,","&wanted,").replace("for _, desiredSuite :=","for _, wanted :=")
open(p,'w').write(s[:i]+body)
p='/tmp/orch_h/sdr_repository.go'
s=open(p).read()
s=s.replace("getSDRCmd","cmd").replace("headerPacket","hp").replace("headerLayer","hl").replace("fsrPacket","fp").replace("fsrLayer","fl").replace("candidateRepo","cand").replace("reserveSDRRepoCmdResp","resv")
open(p,'w').write(s)
PY
for x in a b c d e h; do (cd /tmp/orch_$x && go build ./... ) || echo "BUILD FAIL $x"; done
cd "$ROOT"
run() { echo "== $1 $2"; VERIF_REPO=/tmp/orch_$1 ./check $2 2>&1 | tail -${3:-2}; python3 - $2 <<'PY'
import json,sys
import os
ev=json.load(open(os.path.join(os.environ['ROOT'],'evidence','%s.json'%sys.argv[1])))
for t in ev['coverage']['theorems']:
    if t['status']!='discharged':
        print('    ', t['name'], '->', t['status'][:110])
PY
}
run h C16 1; run h C12 1; run h C14 1
run a C16; run b C16; run c C12; run d C14; run e C14
rm -rf /tmp/orch_a /tmp/orch_b /tmp/orch_c /tmp/orch_d /tmp/orch_e /tmp/orch_h
for p in C14 C16 C12 C17; do ./check $p 2>&1 | tail -1; done
