#!/bin/sh
# self-test of the retry-loop translator (tools/loopgen, DESIGN.md §2.2 T2g) on scratch copies of /repo under /tmp: one harmless
# refactor (the closures and the locals of all five functions renamed: every check must stay OK), four seeded changes (each must
# break the _gen_eq / _events_eq named) and five changes the translator must REFUSE (give up with file:line); the scratch copies
# are removed and the checks re-run on the unchanged /repo.
ROOT=$(cd "$(dirname "$0")/.." && pwd); export ROOT
export GOFLAGS=-mod=mod GOPROXY=off GOSUMDB=off GOTOOLCHAIN=local
cd /tmp && rm -rf loops_a loops_b loops_c loops_d loops_h loops_g1 loops_g2 loops_g3 loops_g4 loops_g5
for x in a b c d h g1 g2 g3 g4 g5; do cp -a /repo loops_$x; done
python3 - <<'PY'
import re
def edit(x, f, fn):
    p='/tmp/loops_%s/%s' % (x, f)
    s=open(p).read(); t=fn(s)
    assert t!=s, (x, f)
    open(p,'w').write(t)
# (a) the sequence number is consumed before the packet is serialised (defect F9 of DESIGN §13)
def a(s):
    s=s.replace("		s.AuthenticatedSequenceNumbers.Inbound++\n		requestCtx, cancel","		requestCtx, cancel")
    return s.replace("		s.v2SessionLayer.Sequence = s.AuthenticatedSequenceNumbers.Inbound + 1\n","		s.AuthenticatedSequenceNumbers.Inbound++\n		s.v2SessionLayer.Sequence = s.AuthenticatedSequenceNumbers.Inbound\n")
edit('a','v2session.go',a)
# (b) strays counted as responses: the response counter is incremented before the isResponseTo check
def b(s):
    i=s.index("		if !isResponseTo(&s.messageLayer.Operation, c.Operation()) {")
    j=s.index("		code := s.messageLayer.CompletionCode", i)
    k=s.index("		if code.IsTemporary() {", j)
    return s[:i]+s[j:k]+s[i:j]+s[k:]
edit('b','v2session.go',b)
# (c) a temporary completion code is a success outside a session
def c(s):
    i=s.index("func (s *V2Sessionless) buildAndSendCommand(")
    return s[:i]+s[i:].replace("		if code.IsTemporary() {\n			return errRetryableCode\n","		if code.IsTemporary() {\n			return nil\n",1)
edit('c','v2sessionless.go',c)
# (d) a transport error inside a session is retried
def d(s):
    return s.replace("""			// completely if it does not support the command.
			terminalErr = err
			return nil""","""			// completely if it does not support the command.
			return err""")
edit('d','v2session.go',d)
# (h) harmless: closures and locals renamed
def h1(s):
    i=s.index("func (s *V2Session) buildAndSend("); j=s.index("func (s *V2Session) GetSystemGUID(")
    body=s[i:j]
    for old,new in (("retryable","attempt"),("firstAttempt","isFirst"),("terminalErr","fatal"),("requestCtx","perTry"),("cancel","stop"),("response","reply"),("types","decoded"),("code","cc")):
        body=re.sub(r'\b%s\b'%old,new,body)
    return s[:i]+body+s[j:]
edit('h','v2session.go',h1)
def h2(s):
    i=s.index("func (s *V2Sessionless) buildAndSendPayload("); j=s.index("// saves having to write two SerializeLayers")
    body=s[i:j]
    for old,new in (("retryable","once"),("requestCtx","perTry"),("cancel","stop"),("response","reply"),("types","decoded")):
        body=re.sub(r'\b%s\b'%old,new,body)
    s=s[:i]+body+s[j:]
    i=s.index("func (s *V2Sessionless) SendCommand("); j=s.index("func (s *V2Sessionless) GetSystemGUID(")
    body=s[i:j]
    for old,new in (("firstAttempt","isFirst"),("requestCtx","perTry"),("cancel","stop"),("response","reply"),("types","decoded"),("code","cc"),("timer","t")):
        body=re.sub(r'\b%s\b'%old,new,body)
    return s[:i]+body+s[j:]
edit('h','v2sessionless.go',h2)
# (g1..g5) outside the language: the translator must give up
edit('g1','v2session.go',lambda s: s.replace("		s.AuthenticatedSequenceNumbers.Inbound++\n","		s.AuthenticatedSequenceNumbers.Inbound += 2\n"))
edit('g2','v2session.go',lambda s: s.replace("			terminalErr = err\n			return nil\n		}\n		s.AuthenticatedSequenceNumbers.Inbound++","			terminalErr = err\n			s.SIK = nil\n			return nil\n		}\n		s.AuthenticatedSequenceNumbers.Inbound++"))
edit('g3','v2session.go',lambda s: s.replace("		cancel()\n		if err != nil {\n			// session is now","		cancel()\n		go s.transport.Close()\n		if err != nil {\n			// session is now"))
edit('g4','v2sessionless.go',lambda s: s.replace("		cancel()\n		if err != nil {\n			return err\n		}\n\n		// parse bytes","		cancel()\n		s.transport.Send(ctx, s.buffer.Bytes())\n		if err != nil {\n			return err\n		}\n\n		// parse bytes"))
edit('g5','v2sessionless.go',lambda s: s.replace("	s.backoff.Reset()\n	retryable := func() error {","	retryable := func() error {"))
PY
for x in a b c d h g1 g2 g3 g4 g5; do (cd /tmp/loops_$x && go build ./... ) || echo "BUILD FAIL $x"; done
cd "$ROOT"
run() { echo "== $1 $2"; VERIF_REPO=/tmp/loops_$1 ./check $2 2>&1 | tail -${3:-1}; python3 - $2 <<'PY'
import json,sys
import os
ev=json.load(open(os.path.join(os.environ['ROOT'],'evidence','%s.json'%sys.argv[1])))
for t in ev['coverage']['theorems']:
    if t['status']!='discharged':
        print('    ', t['name'], '->', t['status'][:140])
PY
}
for p in C09 C10 C18 C02; do run h $p; done
run a C09; run b C18; run c C10; run d C10
for x in g1 g2 g3 g4 g5; do echo "== $x"; ./bin/loopgen /tmp/loops_$x 2>&1 >/dev/null | cut -c1-300; done
rm -rf /tmp/loops_a /tmp/loops_b /tmp/loops_c /tmp/loops_d /tmp/loops_h /tmp/loops_g1 /tmp/loops_g2 /tmp/loops_g3 /tmp/loops_g4 /tmp/loops_g5
for p in C02 C03 C04 C09 C10 C11 C18; do ./check $p 2>&1 | tail -1; done
