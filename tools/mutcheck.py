#!/usr/bin/env python3
"""mutcheck.py <patch.diff> [props…]  — apply a seeded change to a scratch worktree of /repo (never to /repo itself),
confirm it compiles and passes the repository's own tests, run the given checks (default: all) against it through
VERIF_REPO, report which raise a VIOLATION, and remove the worktree."""
import json, os, subprocess, sys, tempfile, shutil
ROOT = os.path.dirname(os.path.dirname(os.path.abspath(__file__)))
sys.path.insert(0, ROOT)
from props import PROPS
import atexit, glob as _glob, shutil as _shutil
# EVID_BACKUP: runs against a changed tree must not leave their evidence files behind in /verif/evidence
_evid = {f: open(f).read() for f in _glob.glob(os.path.join(ROOT, 'evidence', '*.json'))}
def _restore():
    for f, c in _evid.items():
        open(f, 'w').write(c)
atexit.register(_restore)
patch = os.path.abspath(sys.argv[1])
props = sys.argv[2:] or sorted(PROPS)
wt = tempfile.mkdtemp(prefix="mutwt_", dir="/tmp")
os.rmdir(wt)
env = dict(os.environ, GOFLAGS="-mod=mod", GOPROXY="off", GOSUMDB="off", GOTOOLCHAIN="local")
try:
    subprocess.run(["git", "-C", "/repo", "worktree", "add", "-q", "--detach", wt, "HEAD"], check=True)
    r = subprocess.run(["git", "-C", wt, "apply", patch], stderr=subprocess.PIPE, text=True)
    if r.returncode != 0:
        print("PATCH DOES NOT APPLY:", r.stderr.strip()); sys.exit(2)
    t = subprocess.run(["go", "test", "-vet=off", "-count=1", "./..."], cwd=wt, env=env, stdout=subprocess.PIPE, stderr=subprocess.STDOUT, text=True)
    print("repo tests with the change:", "PASS" if t.returncode == 0 else "FAIL\n" + t.stdout[-800:])
    caught = []
    for p in props:
        c = subprocess.run([os.path.join(ROOT, "check"), p], cwd=ROOT, env=dict(env, VERIF_REPO=wt), stdout=subprocess.PIPE, stderr=subprocess.STDOUT, text=True)
        lines = [l for l in c.stdout.splitlines() if l.startswith("VIOLATION") or l.startswith(p + " ")]
        print("  %s exit=%d %s" % (p, c.returncode, " | ".join(lines)[:300]))
        if c.returncode != 0:
            caught.append(p)
            for l in lines:
                if l.startswith("VIOLATION") and "replay=" in l:
                    rp = os.path.join(ROOT, l.split("replay=")[1].split()[0])
                    try:
                        b = json.load(open(rp))
                        print("      replay: why=%s op=%s" % (str(b.get("why", b.get("no_longer_checks", "")))[:160], str(b.get("op", ""))[:120]))
                    except Exception:
                        pass
                    break
    print("CAUGHT BY:", caught or "none")
finally:
    subprocess.run(["git", "-C", "/repo", "worktree", "remove", "--force", wt])
    shutil.rmtree(wt, ignore_errors=True)
    # bring the generated Lean files back to /repo's state
    subprocess.run([os.path.join(ROOT, "check"), "gen"], cwd=ROOT, stdout=subprocess.DEVNULL, stderr=subprocess.DEVNULL)
