#!/usr/bin/env python3
"""Prepare one seeding round: for each property id a detached scratch worktree of /repo, an output directory and a prompt
(docs/SEEDER_BRIEF.md with the property text and a flavour).  usage: mkseedprompts.py <dir> <suffix> <flavours.json>
flavours.json: {"C01": "text", ...}.  The prompts contain nothing from /verif except the property's own text."""
import json, os, subprocess, sys
root = os.path.dirname(os.path.dirname(os.path.abspath(__file__)))
d, suffix, fl = sys.argv[1], sys.argv[2], json.load(open(sys.argv[3]))
props = {json.loads(l)["id"]: json.loads(l) for l in open(os.path.join(root, "properties.jsonl"))}
tmpl = open(os.path.join(root, "docs", "SEEDER_BRIEF.md")).read()
common = (" The defect must survive a careful code review: make it look like an improvement a maintainer would welcome, and make "
          "sure that the repository's tests and typical use behave exactly as before. Do NOT re-introduce a defect that the "
          "repository's git history shows was already fixed (read `git log` first), and avoid the most obvious change (deleting "
          "or inverting the property's central check). Never use `git stash` (it is shared between worktrees).")
os.makedirs(d, exist_ok=True)
for pid, flavour in fl.items():
    p = props[pid]
    wt, out = os.path.join(d, pid + "-" + suffix), os.path.join(d, pid + "-" + suffix + "-out")
    subprocess.run(["git", "-C", "/repo", "worktree", "add", "--detach", wt, "HEAD"], check=True, stdout=subprocess.DEVNULL, stderr=subprocess.DEVNULL)
    os.makedirs(out, exist_ok=True)
    an = p.get("anchors", {})
    anchors = "; ".join(m["where"] for m in an.get("mechanism", [])) or ", ".join(an.get("files", []))
    text = "Property %s — %s\n\nStatement: %s\n\nQuantified: %s\n\nAnchored in: %s\n" % (
        pid, p.get("title", ""), p.get("statement", ""), p.get("quantifier", {}).get("text", ""), anchors)
    body = tmpl.replace("{wt}", wt).replace("{out}", out).replace("{pid}", pid).replace("{prop}", text)
    body = body.replace("DELIVERABLES in", "FLAVOUR WANTED THIS TIME\n------------------------\n" + flavour + common + "\n\nDELIVERABLES in", 1)
    open(os.path.join(d, pid + "-" + suffix + ".prompt"), "w").write(body)
    print(wt)
