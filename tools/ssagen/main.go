package main

// ssagen: translate loop-free integer functions of the repo from SSA to Lean 4
// definitions over BitVec, with Go's semantics made explicit.
//
// usage: ssagen <repo-dir> > Prims.lean

import (
	"path/filepath"
	"fmt"
	"go/constant"
	"go/token"
	"go/types"
	"os"
	"sort"
	"strings"

	"golang.org/x/tools/go/packages"
	"golang.org/x/tools/go/ssa"
	"golang.org/x/tools/go/ssa/ssautil"
)

// functions to translate: SSA name -> Lean name
var want = map[string]string{
	"github.com/gebn/bmc/internal/pkg/bcd.Decode":                          "bcdDecode",
	"github.com/gebn/bmc/internal/pkg/complement.Ones":                     "ones",
	"github.com/gebn/bmc/internal/pkg/complement.Twos":                     "twos",
	"github.com/gebn/bmc/pkg/ipmi.parseAnalogDataFormatUnsigned":           "adfUnsigned",
	"github.com/gebn/bmc/pkg/ipmi.parseAnalogDataFormatOnesComplement":     "adfOnes",
	"github.com/gebn/bmc/pkg/ipmi.parseAnalogDataFormatTwosComplement":     "adfTwos",
	"(github.com/gebn/bmc/pkg/ipmi.CompletionCode).IsTemporary":            "ccIsTemporary",
	"(github.com/gebn/bmc/pkg/ipmi.NetworkFunction).IsRequest":             "nfIsRequest",
	"(github.com/gebn/bmc/pkg/ipmi.EntityInstance).IsSystemRelative":       "eiSystemRelative",
	"(github.com/gebn/bmc/pkg/ipmi.EntityInstance).IsDeviceRelative":       "eiDeviceRelative",
	"(github.com/gebn/bmc/pkg/ipmi.Linearisation).IsLinear":                "linIsLinear",
	"(github.com/gebn/bmc/pkg/ipmi.Linearisation).IsLinearised":            "linIsLinearised",
	"(github.com/gebn/bmc/pkg/ipmi.Linearisation).IsNonLinear":             "linIsNonLinear",
	"(github.com/gebn/bmc/pkg/ipmi.Channel).Valid":                         "channelValid",
	"(github.com/gebn/bmc/pkg/ipmi.SlaveAddress).Address":                  "slaveAddress",
	"(github.com/gebn/bmc/pkg/ipmi.SoftwareID).Address":                    "swidAddress",
	"(github.com/gebn/bmc/pkg/ipmi.Address).IsSlaveAddress":                "addrIsSlave",
	"(github.com/gebn/bmc/pkg/ipmi.StatusCode).IsTemporary":                "statusIsTemporary",
	"github.com/gebn/bmc/pkg/dcmi.secondsMultiplier":                       "secondsMultiplier",
	"github.com/gebn/bmc/pkg/dcmi.rollingAvgPeriodDuration":                "rollingAvgPeriodDuration",
	"github.com/gebn/bmc.isResponseTo":                                     "isResponseTo",
}

type tr struct {
	structParams map[ssa.Value]*types.Struct // struct-valued parameters
	structCopies map[ssa.Value]ssa.Value     // local copy (Alloc) ↦ the struct parameter stored into it
	out          strings.Builder
	fail  string
	elems map[ssa.Value][]string // array allocs: element expressions
	ptrs  map[ssa.Value]string   // IndexAddr results: element expression
}

func width(t types.Type) (int, bool, bool) { // bits, signed, ok
	b, ok := t.Underlying().(*types.Basic)
	if !ok {
		return 0, false, false
	}
	switch b.Kind() {
	case types.Bool, types.UntypedBool:
		return 1, false, true
	case types.Uint8:
		return 8, false, true
	case types.Int8:
		return 8, true, true
	case types.Uint16:
		return 16, false, true
	case types.Int16:
		return 16, true, true
	case types.Uint32:
		return 32, false, true
	case types.Int32:
		return 32, true, true
	case types.Uint64, types.Uint, types.Uintptr:
		return 64, false, true
	case types.Int64, types.Int:
		return 64, true, true
	}
	return 0, false, false
}

func leanType(t types.Type) (string, bool) {
	w, _, ok := width(t)
	if !ok {
		return "", false
	}
	if w == 1 {
		return "Bool", true
	}
	return fmt.Sprintf("BitVec %d", w), true
}

func (t *tr) val(v ssa.Value) string {
	switch x := v.(type) {
	case *ssa.Const:
		w, _, ok := width(x.Type())
		if !ok {
			t.fail = "const type " + x.Type().String()
			return "?"
		}
		if w == 1 {
			if constant.BoolVal(x.Value) {
				return "true"
			}
			return "false"
		}
		i, exact := constant.Int64Val(constant.ToInt(x.Value))
		if !exact {
			u, _ := constant.Uint64Val(constant.ToInt(x.Value))
			return fmt.Sprintf("(%d#%d)", u, w)
		}
		if i < 0 {
			return fmt.Sprintf("(BitVec.ofInt %d (%d))", w, i)
		}
		return fmt.Sprintf("(%d#%d)", i, w)
	case *ssa.Parameter:
		return x.Name()
	default:
		return v.Name()
	}
}

func (t *tr) instr(ins ssa.Instruction, ind string) {
	switch x := ins.(type) {
	case *ssa.BinOp:
		_, signed, ok := width(x.X.Type())
		if !ok {
			t.fail = "binop type " + x.X.Type().String()
			return
		}
		a, b := t.val(x.X), t.val(x.Y)
		var e string
		switch x.Op {
		case token.ADD:
			e = a + " + " + b
		case token.SUB:
			e = a + " - " + b
		case token.MUL:
			e = a + " * " + b
		case token.AND:
			e = a + " &&& " + b
		case token.OR:
			e = a + " ||| " + b
		case token.XOR:
			e = a + " ^^^ " + b
		case token.AND_NOT:
			e = a + " &&& ~~~" + b
		case token.SHL: // Go: count >= width gives 0; BitVec shift by Nat has that semantics
			e = fmt.Sprintf("%s <<< (%s).toNat", a, b)
		case token.SHR:
			if signed {
				e = fmt.Sprintf("BitVec.sshiftRight %s (%s).toNat", a, b)
			} else {
				e = fmt.Sprintf("%s >>> (%s).toNat", a, b)
			}
		case token.EQL:
			e = fmt.Sprintf("decide (%s = %s)", a, b)
		case token.NEQ:
			e = fmt.Sprintf("decide (%s ≠ %s)", a, b)
		case token.LSS, token.LEQ, token.GTR, token.GEQ:
			names := map[token.Token][2]string{token.LSS: {"BitVec.ult", "BitVec.slt"}, token.LEQ: {"BitVec.ule", "BitVec.sle"}}
			l, r, o := a, b, x.Op
			if o == token.GTR {
				o, l, r = token.LSS, b, a
			} else if o == token.GEQ {
				o, l, r = token.LEQ, b, a
			}
			n := names[o][0]
			if signed {
				n = names[o][1]
			}
			e = fmt.Sprintf("%s %s %s", n, l, r)
		case token.QUO: // divisor 0 panics in Go; translated functions only divide by constants
			if c, ok := x.Y.(*ssa.Const); !ok || constant.Sign(c.Value) == 0 {
				t.fail = "division by non-constant"
				return
			}
			if signed {
				e = fmt.Sprintf("BitVec.sdiv %s %s", a, b)
			} else {
				e = fmt.Sprintf("%s / %s", a, b)
			}
		case token.REM:
			if c, ok := x.Y.(*ssa.Const); !ok || constant.Sign(c.Value) == 0 {
				t.fail = "remainder by non-constant"
				return
			}
			if signed {
				e = fmt.Sprintf("BitVec.srem %s %s", a, b)
			} else {
				e = fmt.Sprintf("%s %% %s", a, b)
			}
		default:
			t.fail = "binop " + x.Op.String()
			return
		}
		fmt.Fprintf(&t.out, "%slet %s := %s\n", ind, x.Name(), e)
	case *ssa.Convert:
		_, fs, ok1 := width(x.X.Type())
		tw, _, ok2 := width(x.Type())
		if !ok1 || !ok2 {
			t.fail = "convert type " + x.X.Type().String() + " -> " + x.Type().String()
			return
		}
		if fs {
			fmt.Fprintf(&t.out, "%slet %s : BitVec %d := (%s).signExtend %d\n", ind, x.Name(), tw, t.val(x.X), tw)
		} else {
			fmt.Fprintf(&t.out, "%slet %s : BitVec %d := (%s).setWidth %d\n", ind, x.Name(), tw, t.val(x.X), tw)
		}
	case *ssa.ChangeType:
		fmt.Fprintf(&t.out, "%slet %s := %s\n", ind, x.Name(), t.val(x.X))
	case *ssa.UnOp:
		switch x.Op {
		case token.NOT:
			fmt.Fprintf(&t.out, "%slet %s := !%s\n", ind, x.Name(), t.val(x.X))
		case token.SUB:
			fmt.Fprintf(&t.out, "%slet %s := -%s\n", ind, x.Name(), t.val(x.X))
		case token.XOR:
			fmt.Fprintf(&t.out, "%slet %s := ~~~%s\n", ind, x.Name(), t.val(x.X))
		case token.MUL: // load
			if e, ok := t.ptrs[x.X]; ok {
				fmt.Fprintf(&t.out, "%slet %s := %s\n", ind, x.Name(), e)
			} else {
				t.fail = "load from unknown pointer"
			}
		default:
			t.fail = "unop " + x.Op.String()
		}
	case *ssa.Alloc:
		if arr, ok := x.Type().(*types.Pointer).Elem().Underlying().(*types.Array); ok && !x.Heap {
			t.elems[x] = make([]string, arr.Len())
		} else if _, ok := x.Type().(*types.Pointer).Elem().Underlying().(*types.Struct); ok && !x.Heap {
			// a local copy of a struct parameter: accepted when the only store into it is that parameter
			n := 0
			for _, ref := range *x.Referrers() {
				if st, ok := ref.(*ssa.Store); ok && st.Addr == x {
					if _, isParam := t.structParams[st.Val]; !isParam {
						t.fail = "struct local written from something other than a parameter"
						return
					}
					t.structCopies[x] = st.Val
					n++
				}
			}
			if n != 1 {
				t.fail = "struct local without a single initialising store"
			}
		} else {
			t.fail = "alloc " + x.Type().String()
		}
	case *ssa.Store:
		if _, ok := t.structCopies[x.Addr]; ok {
			return
		}
		if _, ok := t.elems[x.Addr]; ok {
			if p, ok := x.Val.(*ssa.Parameter); ok {
				for i := range t.elems[x.Addr] {
					t.elems[x.Addr][i] = fmt.Sprintf("%s_%d", p.Name(), i)
				}
				return
			}
		}
		t.fail = "store"
	case *ssa.IndexAddr:
		if es, ok := t.elems[x.X]; ok {
			if c, ok := x.Index.(*ssa.Const); ok {
				i, _ := constant.Int64Val(c.Value)
				if int(i) < len(es) && es[i] != "" {
					t.ptrs[x] = es[i]
					return
				}
			}
		}
		t.fail = "indexaddr"
	case *ssa.Call:
		callee := x.Call.StaticCallee()
		if callee == nil {
			t.fail = "dynamic call"
			return
		}
		n, ok := want[callee.String()]
		if !ok {
			t.fail = "call to untranslated " + callee.String()
			return
		}
		var args []string
		for _, a := range x.Call.Args {
			args = append(args, t.val(a))
		}
		fmt.Fprintf(&t.out, "%slet %s := %s %s\n", ind, x.Name(), n, strings.Join(args, " "))
	case *ssa.FieldAddr:
		if p, ok := t.structCopies[x.X]; ok {
			for _, r2 := range *x.Referrers() {
				if u, ok := r2.(*ssa.UnOp); !ok || u.Op != token.MUL {
					if _, dbg := r2.(*ssa.DebugRef); !dbg {
						t.fail = "field of a struct copy is written or escapes"
						return
					}
				}
			}
			t.ptrs[x] = fmt.Sprintf("%s_%s", p.Name(), t.structParams[p].Field(x.Field).Name())
			return
		}
		if _, ok := t.ptrs[x]; !ok {
			t.fail = "field address of something other than a read-only struct pointer parameter"
		}
	case *ssa.Field:
		if st, ok := t.structParams[x.X]; ok {
			fmt.Fprintf(&t.out, "%slet %s := %s_%s\n", ind, x.Name(), x.X.Name(), st.Field(x.Field).Name())
		} else {
			t.fail = "field of something other than a struct parameter"
		}
	case *ssa.DebugRef:
	default:
		t.fail = fmt.Sprintf("instruction %T", ins)
	}
}

func (t *tr) block(b *ssa.BasicBlock, pred *ssa.BasicBlock, ind string, depth int) {
	if depth > 64 {
		t.fail = "control flow too deep (loop?)"
		return
	}
	for _, ins := range b.Instrs {
		switch x := ins.(type) {
		case *ssa.Phi:
			for i, p := range b.Preds {
				if p == pred {
					fmt.Fprintf(&t.out, "%slet %s := %s\n", ind, x.Name(), t.val(x.Edges[i]))
				}
			}
		case *ssa.If:
			fmt.Fprintf(&t.out, "%sif %s then\n", ind, t.val(x.Cond))
			t.block(b.Succs[0], b, ind+"  ", depth+1)
			fmt.Fprintf(&t.out, "%selse\n", ind)
			t.block(b.Succs[1], b, ind+"  ", depth+1)
		case *ssa.Jump:
			t.block(b.Succs[0], b, ind, depth+1)
		case *ssa.Return:
			if len(x.Results) != 1 {
				t.fail = "multi-value return"
				return
			}
			fmt.Fprintf(&t.out, "%s%s\n", ind, t.val(x.Results[0]))
		default:
			t.instr(ins, ind)
		}
		if t.fail != "" {
			return
		}
	}
}

func hasLoop(fn *ssa.Function) bool {
	// a back edge exists iff DFS finds a block on the current stack
	state := map[*ssa.BasicBlock]int{}
	var dfs func(b *ssa.BasicBlock) bool
	dfs = func(b *ssa.BasicBlock) bool {
		state[b] = 1
		for _, s := range b.Succs {
			if state[s] == 1 || (state[s] == 0 && dfs(s)) {
				return true
			}
		}
		state[b] = 2
		return false
	}
	return len(fn.Blocks) > 0 && dfs(fn.Blocks[0])
}

func translate(fn *ssa.Function, name string) (string, string) {
	if hasLoop(fn) {
		return "", "function has a loop"
	}
	t := &tr{elems: map[ssa.Value][]string{}, ptrs: map[ssa.Value]string{}, structParams: map[ssa.Value]*types.Struct{}, structCopies: map[ssa.Value]ssa.Value{}}
	var ps []string
	for _, p := range fn.Params {
		if arr, ok := p.Type().Underlying().(*types.Array); ok {
			et, ok := leanType(arr.Elem())
			if !ok {
				return "", "param type " + p.Type().String()
			}
			for i := 0; i < int(arr.Len()); i++ {
				ps = append(ps, fmt.Sprintf("(%s_%d : %s)", p.Name(), i, et))
			}
			continue
		}
		// a pointer to a struct of scalars that is only READ (every use is a field address that is only loaded from):
		// one parameter per field
		if pt, ok := p.Type().Underlying().(*types.Pointer); ok {
			if st, ok := pt.Elem().Underlying().(*types.Struct); ok {
				for i := 0; i < st.NumFields(); i++ {
					ft, ok := leanType(st.Field(i).Type())
					if !ok {
						return "", "param field type " + st.Field(i).Type().String()
					}
					ps = append(ps, fmt.Sprintf("(%s_%s : %s)", p.Name(), st.Field(i).Name(), ft))
				}
				for _, ref := range *p.Referrers() {
					fa, ok := ref.(*ssa.FieldAddr)
					if !ok {
						if _, dbg := ref.(*ssa.DebugRef); dbg {
							continue
						}
						return "", "struct pointer parameter used other than through a field"
					}
					for _, r2 := range *fa.Referrers() {
						if u, ok := r2.(*ssa.UnOp); !ok || u.Op != token.MUL {
							if _, dbg := r2.(*ssa.DebugRef); dbg {
								continue
							}
							return "", "field of a struct pointer parameter is written or escapes"
						}
					}
					t.ptrs[fa] = fmt.Sprintf("%s_%s", p.Name(), st.Field(fa.Field).Name())
				}
				continue
			}
		}
		// a struct of scalars passed BY VALUE: one parameter per field (read through ssa.Field, or through a local copy)
		if st, ok := p.Type().Underlying().(*types.Struct); ok {
			for i := 0; i < st.NumFields(); i++ {
				ft, ok := leanType(st.Field(i).Type())
				if !ok {
					return "", "param field type " + st.Field(i).Type().String()
				}
				ps = append(ps, fmt.Sprintf("(%s_%s : %s)", p.Name(), st.Field(i).Name(), ft))
			}
			t.structParams[p] = st
			continue
		}
		lt, ok := leanType(p.Type())
		if !ok {
			return "", "param type " + p.Type().String()
		}
		ps = append(ps, fmt.Sprintf("(%s : %s)", p.Name(), lt))
	}
	if fn.Signature.Results().Len() != 1 {
		return "", "result arity"
	}
	rt, ok := leanType(fn.Signature.Results().At(0).Type())
	if !ok {
		return "", "result type " + fn.Signature.Results().At(0).Type().String()
	}
	fmt.Fprintf(&t.out, "/-- translated from `%s` (%s) -/\ndef %s %s : %s :=\n", fn.String(), filepath.Base(fn.Prog.Fset.Position(fn.Pos()).Filename), name, strings.Join(ps, " "), rt)
	t.block(fn.Blocks[0], nil, "  ", 0)
	return t.out.String(), t.fail
}

func main() {
	dir := "/repo"
	if len(os.Args) > 1 {
		dir = os.Args[1]
	}
	cfg := &packages.Config{Mode: packages.LoadAllSyntax, Dir: dir, Env: append(os.Environ(), "GOFLAGS=-mod=mod", "GOPROXY=off")}
	pkgs, err := packages.Load(cfg, "./...")
	if err != nil {
		fmt.Fprintln(os.Stderr, err)
		os.Exit(2)
	}
	if packages.PrintErrors(pkgs) > 0 {
		os.Exit(2)
	}
	prog, _ := ssautil.AllPackages(pkgs, ssa.BuilderMode(0))
	prog.Build()
	found := map[string]*ssa.Function{}
	for fn := range ssautil.AllFunctions(prog) {
		if _, ok := want[fn.String()]; ok {
			found[fn.String()] = fn
		}
	}
	// order: callees first (simple: translate in dependency order by repeated passes on names)
	var keys []string
	for k := range want {
		keys = append(keys, k)
	}
	sort.Slice(keys, func(i, j int) bool { return want[keys[i]] < want[keys[j]] })
	fmt.Println("-- GENERATED by ssagen from the Go sources; do not edit.")
	fmt.Println("namespace Bmc.Gen\n")
	bad := 0
	emitted := map[string]bool{}
	gaveUp := map[string]bool{}
	var emit func(k string)
	emit = func(k string) {
		if emitted[k] {
			return
		}
		emitted[k] = true
		fn := found[k]
		if fn == nil {
			fmt.Printf("-- MISSING: %s not found in the source tree\n\n", k)
			gaveUp[k] = true
			bad++
			return
		}
		// emit static callees first
		for _, b := range fn.Blocks {
			for _, ins := range b.Instrs {
				if c, ok := ins.(*ssa.Call); ok {
					if callee := c.Call.StaticCallee(); callee != nil {
						if _, ok := want[callee.String()]; ok {
							emit(callee.String())
						}
					}
				}
			}
		}
		// a caller of a function that could not be translated cannot be translated either (the generated file must
		// always compile: what is missing is then reported per definition, by the theorems that need it)
		for _, b := range fn.Blocks {
			for _, ins := range b.Instrs {
				if c, ok := ins.(*ssa.Call); ok {
					if callee := c.Call.StaticCallee(); callee != nil {
						if _, ok := want[callee.String()]; ok && gaveUp[callee.String()] {
							fmt.Printf("-- GAVE UP on %s: calls %s, which was not translated\n\n", k, callee.String())
							gaveUp[k] = true
							bad++
							return
						}
					}
				}
			}
		}
		src, fail := translate(fn, want[k])
		if fail != "" {
			fmt.Printf("-- GAVE UP on %s: %s\n\n", k, fail)
			gaveUp[k] = true
			bad++
			return
		}
		fmt.Println(src)
	}
	for _, k := range keys {
		emit(k)
	}
	fmt.Println("end Bmc.Gen")
	if bad > 0 {
		fmt.Fprintf(os.Stderr, "ssagen: %d function(s) could not be translated\n", bad)
		os.Exit(1)
	}
}
