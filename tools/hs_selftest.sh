#!/bin/sh
# self-test of the session-establishment translator (tools/decgen -hs, DESIGN.md §2.2 T2f) on scratch copies of /repo under /tmp:
# one harmless refactor (locals of newV2Session and of the three wrappers renamed: the checks must stay OK) and seeded changes
# (each must break newV2Session_gen_eq — or make the translator give up with a reason — and usually give a failing input through
# scenario hs); the scratch copies are removed and the checks re-run on the unchanged /repo.
#   a   the RAKP 2 AuthCode comparison moved AFTER the s.rakpMessage3(...) call
#   a2  … the comparison made before, its result acted on after the call
#   b   the confirmed integrity algorithm compared with itself instead of with the proposal
#   c   opts.Password as SIK key even when opts.KG is set
#   d   SessionID: 2 in the Open Session Request
#   e   LocalID / RemoteID of the session swapped
#   f   the tag check of rakpMessage1 dropped
#   h   harmless: locals renamed (all but rakpMessage1, effectiveBMCKey and sik, whose NAMES tools/keygen puts into Gen/Keys.lean:
#       newV2Session_rakpMessage1, hashOf - a sensitivity of keygen, not of this translator: decgen -hs on a copy with those
#       renamed too gives the same Gen/Hs.lean up to the names)
ROOT=$(cd "$(dirname "$0")/.." && pwd); export ROOT
export GOFLAGS=-mod=mod GOPROXY=off GOSUMDB=off GOTOOLCHAIN=local
touch /tmp/hsst_marker
cd /tmp && for x in a a2 b c d e f h; do rm -rf hsst_$x; mkdir hsst_$x; (cd /repo && tar cf - --exclude=.git .) | (cd hsst_$x && tar xf -); done
python3 - <<'PY'
def edit(x, f, fn):
    p = '/tmp/hsst_%s/%s' % (x, f)
    s = open(p).read()
    t = fn(s)
    assert t != s, (x, f)
    open(p, 'w').write(t)
CHECK = '''	if !hmac.Equal(rakpMessage2.AuthCode, rakpMessage2AuthCode) {
		return nil, ErrIncorrectPassword
	}

'''
AFTER = '''		AuthCode: calculateRAKPMessage3AuthCode(
			authCodeHash, rakpMessage1, rakpMessage2),
	})
	if err != nil {
		return nil, err
	}
'''
def mut_a(s):
    assert CHECK in s and AFTER in s
    return s.replace(CHECK, '').replace(AFTER, AFTER + CHECK)
def mut_a2(s):
    s = s.replace(CHECK, '	codeOK := hmac.Equal(rakpMessage2.AuthCode, rakpMessage2AuthCode)\n\n')
    return s.replace(AFTER, AFTER + '	if !codeOK {\n		return nil, ErrIncorrectPassword\n	}\n')
edit('a', 'v2session_new.go', mut_a)
edit('a2', 'v2session_new.go', mut_a2)
edit('b', 'v2session_new.go', lambda s: s.replace('openSessionRsp.IntegrityPayload.Algorithm != cipherSuite.IntegrityAlgorithm ||',
                                                  'openSessionRsp.IntegrityPayload.Algorithm != openSessionRsp.IntegrityPayload.Algorithm ||'))
edit('c', 'v2session_new.go', lambda s: s.replace('sikHash := hashGenerator.SIK(effectiveBMCKey)', 'sikHash := hashGenerator.SIK(opts.Password)\n	_ = effectiveBMCKey'))
edit('d', 'v2session_new.go', lambda s: s.replace('SessionID:         1,', 'SessionID:         2,'))
edit('e', 'v2session_new.go', lambda s: s.replace('LocalID:                        openSessionRsp.RemoteConsoleSessionID,', 'LocalID:                        openSessionRsp.ManagedSystemSessionID,')
                                         .replace('RemoteID:                       openSessionRsp.ManagedSystemSessionID,', 'RemoteID:                       openSessionRsp.RemoteConsoleSessionID,'))
def mut_f(s):
    i = s.index('func (s *V2Sessionless) rakpMessage1(')
    j = s.index('func (s *V2Sessionless) rakpMessage3(')
    body = s[i:j]
    k = body.index('	if rsp.Tag != r.Tag {')
    l = body.index('	if rsp.Status != ipmi.StatusCodeOK {')
    return s[:i] + body[:k] + body[l:] + s[j:]
edit('f', 'v2sessionless.go', mut_f)
import re
def ren(body, pairs):
    for a, b in pairs:
        body = re.sub(r'\b%s\b' % a, b, body)
    return body
def ren_new(s):
    i = s.index('func (s *V2SessionlessTransport) newV2Session(')
    j = s.index('// determineCipherSuite picks')
    body = ren(s[i:j], (('cipherSuite', 'suite'), ('openSessionRsp', 'osr'), ('remoteConsoleRandom', 'rcr'),
                        ('rakpMessage2AuthCode', 'want2'), ('rakpMessage2', 'm2'), ('rakpMessage4ICV', 'want4'), ('rakpMessage4', 'm4'),
                        ('hashGenerator', 'gen'), ('authCodeHash', 'ach'), ('sikHash', 'sh'), ('icvHash', 'ih'),
                        ('keyMaterialGen', 'kmg'), ('hasher', 'integ'), ('cipherLayer', 'aes'), ('sess', 'ns'), ('dlc', 'cont')))
    return s[:i] + body + s[j:]
edit('h', 'v2session_new.go', ren_new)
def ren_wr(s):
    i = s.index('func (s *V2Sessionless) openSession(')
    return s[:i] + ren(s[i:], (('payload', 'pl'), ('rsp', 'answer'), ('r', 'req')))
edit('h', 'v2sessionless.go', ren_wr)
PY
for x in a a2 b c d e f h; do (cd /tmp/hsst_$x && go build ./... && go vet . >/dev/null 2>&1) || echo "BUILD/VET FAIL $x"; done
cd "$ROOT"
run() { echo "== $1 $2"; VERIF_REPO=/tmp/hsst_$1 ./check $2 2>&1 | grep -v "^  *$" | tail -${3:-3} | cut -c1-400; grep -h "gave up" lean/Bmc/Gen/Hs.lean | head -2 | cut -c1-300; python3 - $2 <<'PY'
import json,sys
import os
ev=json.load(open(os.path.join(os.environ['ROOT'],'evidence','%s.json'%sys.argv[1])))
for t in ev['coverage']['theorems']:
    if t['status']!='discharged':
        print('    ', t['name'], '->', t['status'][:160])
PY
}
run h C01 1; run h C02 1; run h C12 1
for x in a a2 b c d e f; do run $x C02; done
run b C12; run e C01
for x in a a2 b c d e f h; do rm -rf /tmp/hsst_$x; done
find replays -name '*.json' -newer /tmp/hsst_marker -delete 2>/dev/null; rm -f /tmp/hsst_marker   # the failing inputs of the seeded changes
for p in C01 C02 C12; do ./check $p 2>&1 | tail -1; done
