package main

// Functions, closures and statements.
//
// STATEMENTS
//   x := <bool | unsigned | error(nil)>            let x : T := …
//   x = e (a local; inside a closure: a captured variable of the enclosing function, threaded through the closure)
//   s.<layer struct> = T{…} ; s.<layer struct>.F = e      modifyCell (record update of the cell; nothing else of the receiver may be written)
//   s.AuthenticatedSequenceNumbers.Inbound++               modifyCell (fun k => { k with inbound := k.inbound + 1 })   (any other write of it: give up)
//   requestCtx, cancel := context.WithTimeout(ctx, s.timeout)
//   response, err := s.transport.Send(requestCtx, s.buffer.Bytes())
//   cancel()                                               these three, consecutive and of exactly this shape ↦ transportSend W k.buffer
//   types := layerexts.DecodedTypes(s.layers)              let types := k.decoded
//   M.Inc() / M.WithLabelValues(l…).Inc() (M a package-level Prometheus variable; labels code.String(), c.Name())   event (Ev.inc "M" [labels])
//   timer := prometheus.NewTimer(M) ; defer timer.ObserveDuration()     event (Ev.timerStart "M") ; deferred (event (Ev.timerObserve "M")) (rest of the body)
//   s.backoff.Reset()                                       nothing (backoff.Retry resets the policy itself); must precede backoff.Retry
//   name := func() error { … }                              the definition F_funcN
//   if [err := CALL;] cond { …; return … }                  if cond then (…) else <rest>
//   if cond { … } else { … } (no return inside)             a join on the locals assigned
//   if cond { … } (returns inside, does not always return, assigns no outer local)   a join on `Option` of the returned value
//   return …
// CALLS THAT RETURN AN ERROR (in `if err := CALL; err != nil`, `return CALL`)
//   gopacket.SerializeLayers(s.buffer, serializeOptions, layers…)       serializeLayers W opts [args]  (layers: &s.<layer struct>, an interface
//                                                                        field of the receiver, a getter, serializableLayerOrEmpty(getter))
//   s.decode(response, &s.layers)  (`_, err :=`)                        decodeLayers W response
//   types.InnermostEquals(<LayerType constant>)                         innermostEquals W types LayerTy.X
//   x.Response().DecodeFromBytes(<bytes>, gopacket.NilDecodeFeedback)   decodeFromBytes W x.response bytes
//   s.<translated method>(ctx, c)                                       the translated definition
//   backoff.Retry(<closure>, backoff.WithContext(s.backoff, ctx))       backoffRetry W.backoffWait fuel (F_funcN …) (captured variables)
// Everything else — goroutines, channels, other uses of ctx / the receiver / the transport / the buffer, loops — is a give-up.

import (
	"fmt"
	"go/ast"
	"go/token"
	"go/types"
	"strings"
)

type local struct {
	lean string
	ty   string // Lean type of a value local ("" for the others)
	kind string // "val", "closure", "ctx", "cancel", "timer", "types"
	obj  types.Object
	// closure: the definition; timer: the metric
	def      string
	captured []*local
	metric   string
}

type fnCtx struct {
	g         *gen
	it        item
	decl      *ast.FuncDecl
	lean      string // name of the definition
	recv      *types.Var
	recvNamed *types.Named
	recvLean  string
	ctxParam  *types.Var
	iface     *types.Var
	ifaceLean string
	locals    map[types.Object]*local
	names     map[string]int
	tmp       int
	usesFuel  bool
	usesRecv  bool
	usesIface bool
	closures  []string
	nclosure  int
	resetSeen bool
	results   []string // Lean types of the results
	// inside a closure
	inClosure *ast.FuncLit
	caps      []*local
	params    []string // doc of parameters
}

// how `return` and falling off the end of a block are rendered
type mode struct {
	ret  func(vals []string) string
	fall func() string // nil: the block must end in a return
}

func (f *fnCtx) fresh(p string) string {
	f.tmp++
	return fmt.Sprintf("%s%d", p, f.tmp)
}

func (f *fnCtx) declare(obj types.Object, ty, kind string) *local {
	name := obj.Name()
	if leanReserved[name] || name == f.recvLean || name == f.ifaceLean {
		name += "_"
	}
	n := f.names[name]
	f.names[name] = n + 1
	lean := name
	if n > 0 {
		lean = fmt.Sprintf("%s_%d", name, n)
	}
	l := &local{lean: lean, ty: ty, kind: kind, obj: obj}
	f.locals[obj] = l
	return l
}

// checkCaptured: inside a closure a local of the enclosing function must be one the closure threads
func (f *fnCtx) checkCaptured(at ast.Node, l *local) {
	if f.inClosure == nil {
		return
	}
	if l.obj.Pos() >= f.inClosure.Pos() && l.obj.Pos() < f.inClosure.End() {
		return
	}
	for _, c := range f.caps {
		if c == l {
			return
		}
	}
	f.g.fail(at, "the closure reads the local %s of the enclosing function without assigning it", l.obj.Name())
}

func (g *gen) function(it item, fd *ast.FuncDecl) string {
	f := &fnCtx{g: g, it: it, decl: fd, locals: map[types.Object]*local{}, names: map[string]int{}}
	f.lean = strings.Replace(it.key, ".", "_", 1)
	if fd.Recv == nil || len(fd.Recv.List) != 1 || len(fd.Recv.List[0].Names) != 1 {
		g.fail(fd, "not a method with a named receiver")
	}
	f.recv = g.info.Defs[fd.Recv.List[0].Names[0]].(*types.Var)
	pt, ok := f.recv.Type().(*types.Pointer)
	if !ok {
		g.fail(fd, "receiver is not a pointer")
	}
	f.recvNamed = types.Unalias(pt.Elem()).(*types.Named)
	f.recvLean = f.recv.Name()
	if leanReserved[f.recvLean] {
		f.recvLean += "_"
	}
	for _, p := range fd.Type.Params.List {
		for _, nm := range p.Names {
			v := g.info.Defs[nm].(*types.Var)
			switch {
			case isNamed(v.Type(), "context", "Context") && f.ctxParam == nil:
				f.ctxParam = v
			case isInterface(v.Type()) && f.iface == nil && (isNamed(v.Type(), modPath+"/pkg/ipmi", "Command") || isNamed(v.Type(), modPath+"/pkg/ipmi", "Payload")):
				f.iface = v
				f.ifaceLean = v.Name()
				if leanReserved[f.ifaceLean] || f.ifaceLean == f.recvLean {
					f.ifaceLean += "_"
				}
			default:
				g.fail(p, "parameter %s of type %s", nm.Name, v.Type())
			}
		}
	}
	if f.ctxParam == nil || f.iface == nil {
		g.fail(fd, "expected the parameters (ctx context.Context, c ipmi.Command | p ipmi.Payload)")
	}
	if fd.Type.Results == nil {
		g.fail(fd, "no results")
	}
	for _, r := range fd.Type.Results.List {
		if len(r.Names) > 0 {
			g.fail(r, "named results")
		}
		lt := g.leanType(g.info.TypeOf(r.Type))
		if lt == "" || lt == "Opaque" {
			g.fail(r, "result type")
		}
		f.results = append(f.results, lt)
	}
	if f.results[len(f.results)-1] != "Option GoErr" || len(f.results) > 2 {
		g.fail(fd, "results other than (error) / (value, error)")
	}
	m := mode{ret: func(vals []string) string {
		if len(vals) == 1 {
			return "pure " + vals[0]
		}
		return "pure (" + strings.Join(vals, ", ") + ")"
	}}
	lines := f.block(fd.Body.List, "  ", m, true)

	var b strings.Builder
	for _, c := range f.closures {
		b.WriteString(c)
		b.WriteString("\n")
	}
	resT := f.results[0]
	if len(f.results) == 2 {
		resT = "(" + f.results[0] + " × " + f.results[1] + ")"
	} else if strings.Contains(resT, " ") {
		resT = "(" + resT + ")"
	}
	fmt.Fprintf(&b, "/-- translated from `(*%s.%s).%s` (%s)", pkgShort(g.pkg.Types), f.recvNamed.Obj().Name(), fd.Name.Name, g.pos(fd))
	if f.usesFuel {
		b.WriteString("\n    PARAMETER `fuel`: how many times a closure given to backoff.Retry may run (`RF.outOfFuel` beyond it; the Go loop has no bound of its own)")
	}
	b.WriteString(" -/\n")
	fmt.Fprintf(&b, "def %s {σ τ : Type} (W : World σ τ)%s : M (σ × Conn τ) %s := do\n", f.lean, f.sigParams(), resT)
	for _, l := range lines {
		b.WriteString(l)
		b.WriteString("\n")
	}
	g.done[it.key] = &fnInfo{lean: f.lean, usesFuel: f.usesFuel, usesRecv: f.usesRecv, usesIface: f.usesIface}
	return b.String()
}

func (f *fnCtx) sigParams() string {
	s := ""
	if f.usesFuel {
		s += " (fuel : Nat)"
	}
	if f.usesRecv {
		s += fmt.Sprintf(" (%s : %sConsts)", f.recvLean, f.recvNamed.Obj().Name())
	}
	if f.usesIface {
		n := types.Unalias(f.iface.Type()).(*types.Named)
		s += fmt.Sprintf(" (%s : %s_%s)", f.ifaceLean, pkgShort(n.Obj().Pkg()), n.Obj().Name())
	}
	return s
}

func (f *fnCtx) argParams(fuel, recv, iface bool) string {
	s := ""
	if fuel {
		s += " fuel"
	}
	if recv {
		s += " " + f.recvLean
	}
	if iface {
		s += " " + f.ifaceLean
	}
	return s
}

// ---- blocks ----------------------------------------------------------------------------------------------------------------

func alwaysReturns(stmts []ast.Stmt) bool {
	if len(stmts) == 0 {
		return false
	}
	_, ok := stmts[len(stmts)-1].(*ast.ReturnStmt)
	return ok
}

func containsReturn(n ast.Node) bool {
	found := false
	ast.Inspect(n, func(x ast.Node) bool {
		switch x.(type) {
		case *ast.FuncLit:
			return false
		case *ast.ReturnStmt:
			found = true
		}
		return true
	})
	return found
}

// assignedOuter: the locals declared outside `n` that are assigned (`=`) inside it, in order of declaration
func (f *fnCtx) assignedOuter(n ast.Node) []*local {
	seen := map[*local]bool{}
	var out []*local
	ast.Inspect(n, func(x ast.Node) bool {
		if _, ok := x.(*ast.FuncLit); ok && x != n {
			return false
		}
		as, ok := x.(*ast.AssignStmt)
		if !ok || as.Tok == token.DEFINE {
			return true
		}
		for _, l := range as.Lhs {
			if id, ok := l.(*ast.Ident); ok {
				obj := f.g.info.Uses[id]
				if obj != nil && (obj.Pos() < n.Pos() || obj.Pos() >= n.End()) {
					if lo, ok := f.locals[obj]; ok && !seen[lo] {
						seen[lo] = true
						out = append(out, lo)
					}
				}
			}
		}
		return true
	})
	// order of declaration
	for i := range out {
		for j := i + 1; j < len(out); j++ {
			if out[j].obj.Pos() < out[i].obj.Pos() {
				out[i], out[j] = out[j], out[i]
			}
		}
	}
	return out
}

func tupleOf(ls []*local) (val, ty string) {
	if len(ls) == 0 {
		return "()", "Unit"
	}
	var vs, ts []string
	for _, l := range ls {
		vs = append(vs, l.lean)
		ts = append(ts, l.ty)
	}
	if len(ls) == 1 {
		return vs[0], ts[0]
	}
	return "(" + strings.Join(vs, ", ") + ")", "(" + strings.Join(ts, " × ") + ")"
}

// proj: the i-th component of a right-nested tuple of n components held in `v`
func proj(v string, i, n int) string {
	if n == 1 {
		return v
	}
	s := v
	for k := 0; k < i; k++ {
		s += ".2"
	}
	if i < n-1 {
		s += ".1"
	}
	return s
}

func (f *fnCtx) rebind(ls []*local, from string, ind string) []string {
	var out []string
	for i, l := range ls {
		out = append(out, fmt.Sprintf("%slet %s : %s := %s", ind, l.lean, l.ty, proj(from, i, len(ls))))
	}
	return out
}

// withCell: `let kN ← getCell` in front of the lines when the expression read the connection's state
func (f *fnCtx) newRd() *rd { return &rd{cell: f.fresh("k")} }

func cellLine(r *rd, ind string) []string {
	if r.used {
		return []string{ind + "let " + r.cell + " ← getCell"}
	}
	return nil
}

func (f *fnCtx) block(stmts []ast.Stmt, ind string, m mode, top bool) []string {
	g := f.g
	var out []string
	for i := 0; i < len(stmts); i++ {
		st := stmts[i]
		switch x := st.(type) {
		case *ast.ReturnStmt:
			if i != len(stmts)-1 {
				g.fail(st, "statements after a return")
			}
			out = append(out, f.returnStmt(x, ind, m)...)
			return out
		case *ast.DeferStmt:
			if !top || f.inClosure != nil {
				g.fail(st, "defer outside the top level of the function")
			}
			c := x.Call
			se, ok := c.Fun.(*ast.SelectorExpr)
			if ok && len(c.Args) == 0 && se.Sel.Name == "ObserveDuration" {
				if id, ok := se.X.(*ast.Ident); ok {
					if l, ok := f.locals[g.info.Uses[id]]; ok && l.kind == "timer" {
						if fn := f.calledFunc(c); fn != nil && fn.FullName() == "(*github.com/prometheus/client_golang/prometheus.Timer).ObserveDuration" {
							out = append(out, fmt.Sprintf("%sdeferred (event (Ev.timerObserve %q)) (do", ind, l.metric))
							rest := f.block(stmts[i+1:], ind+"  ", m, false)
							rest[len(rest)-1] += ")"
							return append(out, rest...)
						}
					}
				}
			}
			g.fail(st, "defer of something other than the ObserveDuration of a timer")
		case *ast.IfStmt:
			lines, done := f.ifStmt(x, stmts[i+1:], ind, m)
			out = append(out, lines...)
			if done {
				return out
			}
		case *ast.AssignStmt:
			n, lines := f.assign(stmts[i:], ind)
			out = append(out, lines...)
			i += n - 1
		case *ast.IncDecStmt:
			if path, ok := f.recvPath(x.X); ok && isCounter(path) && x.Tok == token.INC {
				out = append(out, ind+"modifyCell (fun k => { k with inbound := k.inbound + 1 })")
				continue
			}
			g.fail(st, "increment of something other than AuthenticatedSequenceNumbers.Inbound")
		case *ast.ExprStmt:
			out = append(out, f.exprStmt(x, ind)...)
		default:
			g.fail(st, "statement outside the language")
		}
	}
	if m.fall == nil {
		if len(stmts) > 0 {
			g.fail(stmts[len(stmts)-1], "the block does not end in a return")
		}
		panic(giveUp{"an empty block that must return"})
	}
	out = append(out, ind+m.fall())
	return out
}

func (f *fnCtx) returnStmt(x *ast.ReturnStmt, ind string, m mode) []string {
	g := f.g
	want := f.results
	if f.inClosure != nil {
		want = []string{"Option GoErr"}
	}
	if len(x.Results) != len(want) {
		g.fail(x, "return with %d values", len(x.Results))
	}
	var out, vals []string
	for i, e := range x.Results {
		if want[i] == "Option GoErr" {
			if c, ok := e.(*ast.CallExpr); ok {
				if lines, v, ok := f.errCall(c, ind); ok {
					out = append(out, lines...)
					vals = append(vals, v)
					continue
				}
			}
		}
		r := f.newRd()
		v, t := f.expr(e, r)
		if t == "nil" && want[i] == "Option GoErr" {
			v, t = "none", "Option GoErr"
		}
		if t != want[i] {
			g.fail(e, "a returned value of type %s where %s is expected", t, want[i])
		}
		out = append(out, cellLine(r, ind)...)
		vals = append(vals, v)
	}
	out = append(out, ind+m.ret(vals))
	return out
}

// ---- if ------------------------------------------------------------------------------------------------------------------------

func (f *fnCtx) ifStmt(x *ast.IfStmt, rest []ast.Stmt, ind string, m mode) ([]string, bool) {
	g := f.g
	var out []string
	if x.Init != nil {
		as, ok := x.Init.(*ast.AssignStmt)
		if !ok || as.Tok != token.DEFINE || len(as.Rhs) != 1 {
			g.fail(x.Init, "if-initialiser outside the language")
		}
		c, ok := as.Rhs[0].(*ast.CallExpr)
		if !ok {
			g.fail(x.Init, "if-initialiser outside the language")
		}
		lines, v, ok := f.errCall(c, ind)
		if !ok {
			g.fail(x.Init, "if-initialiser: not a call returning an error that the language knows")
		}
		// `err :=` or `_, err :=` (the decoder's first result is not used)
		errId := as.Lhs[len(as.Lhs)-1].(*ast.Ident)
		for _, l := range as.Lhs[:len(as.Lhs)-1] {
			if id, ok := l.(*ast.Ident); !ok || id.Name != "_" {
				g.fail(x.Init, "if-initialiser binds more than the error")
			}
		}
		nres := 1
		if tup, ok := g.info.TypeOf(c).(*types.Tuple); ok {
			nres = tup.Len()
		}
		if nres != len(as.Lhs) || errId.Name == "_" {
			g.fail(x.Init, "if-initialiser outside the language")
		}
		l := f.declare(g.info.Defs[errId], "Option GoErr", "val")
		out = append(out, lines...)
		out = append(out, fmt.Sprintf("%slet %s : Option GoErr := %s", ind, l.lean, v))
	}
	r := f.newRd()
	cond, ct := f.expr(x.Cond, r)
	if ct != "Bool" {
		g.fail(x.Cond, "condition of type %s", ct)
	}
	out = append(out, cellLine(r, ind)...)

	body := x.Body.List
	switch {
	case x.Else == nil && alwaysReturns(body):
		// if cond { …; return … } <rest>
		inner := f.block(body, ind+"  ", mode{ret: m.ret}, false)
		if len(inner) == 1 {
			out = append(out, fmt.Sprintf("%sif %s then %s else", ind, cond, strings.TrimSpace(inner[0])))
		} else {
			out = append(out, fmt.Sprintf("%sif %s then (do", ind, cond))
			inner[len(inner)-1] += ") else"
			out = append(out, inner...)
		}
		return out, false
	case !containsReturn(x):
		// a join on the locals assigned in either arm
		var elseStmts []ast.Stmt
		if x.Else != nil {
			eb, ok := x.Else.(*ast.BlockStmt)
			if !ok {
				g.fail(x.Else, "else-if")
			}
			elseStmts = eb.List
		}
		vars := f.assignedOuter(x)
		tv, _ := tupleOf(vars)
		jm := mode{ret: nil, fall: func() string { return "pure " + tv }}
		j := f.fresh("j")
		thenL := f.block(body, ind+"    ", jm, false)
		elseL := f.block(elseStmts, ind+"    ", jm, false)
		out = append(out, fmt.Sprintf("%slet %s ← (if %s then (do", ind, j, cond))
		thenL[len(thenL)-1] += ") else (do"
		out = append(out, thenL...)
		elseL[len(elseL)-1] += "))"
		out = append(out, elseL...)
		out = append(out, f.rebind(vars, j, ind)...)
		return out, false
	case x.Else == nil:
		// returns inside, but not on every path: the value returned, if any
		if vars := f.assignedOuter(x); len(vars) > 0 {
			g.fail(x, "a conditional with a return inside that also assigns %s", vars[0].obj.Name())
		}
		j := f.fresh("j")
		om := mode{ret: func(vals []string) string {
			return "pure (some (" + strings.TrimPrefix(m.ret(vals), "pure ") + "))"
		}, fall: func() string { return "pure none" }}
		inner := f.block(body, ind+"    ", om, false)
		out = append(out, fmt.Sprintf("%slet %s ← (if %s then (do", ind, j, cond))
		inner[len(inner)-1] += ") else pure none)"
		out = append(out, inner...)
		out = append(out, fmt.Sprintf("%smatch %s with", ind, j))
		out = append(out, fmt.Sprintf("%s| some v => pure v", ind))
		out = append(out, fmt.Sprintf("%s| none => (do", ind))
		restL := f.block(rest, ind+"  ", m, false)
		restL[len(restL)-1] += ")"
		out = append(out, restL...)
		return out, true
	}
	g.fail(x, "conditional outside the language (else together with return)")
	return nil, false
}

// ---- assignments and declarations ------------------------------------------------------------------------------------------------

// assign: translates stmts[0] (an assignment), possibly together with the statements that belong to the same idiom;
// returns how many statements were consumed
func (f *fnCtx) assign(stmts []ast.Stmt, ind string) (int, []string) {
	g := f.g
	x := stmts[0].(*ast.AssignStmt)
	if x.Tok == token.DEFINE {
		// requestCtx, cancel := context.WithTimeout(ctx, s.timeout) ; response, err := s.transport.Send(requestCtx, s.buffer.Bytes()) ; cancel()
		if len(x.Lhs) == 2 && len(x.Rhs) == 1 {
			if c, ok := x.Rhs[0].(*ast.CallExpr); ok {
				if fn := f.calledFunc(c); fn != nil && fn.FullName() == "context.WithTimeout" {
					return 3, f.sendIdiom(stmts, ind)
				}
			}
		}
		if len(x.Lhs) != 1 || len(x.Rhs) != 1 {
			g.fail(x, "declaration outside the language")
		}
		id, ok := x.Lhs[0].(*ast.Ident)
		if !ok || id.Name == "_" {
			g.fail(x, "declaration outside the language")
		}
		obj := g.info.Defs[id]
		switch rhs := x.Rhs[0].(type) {
		case *ast.FuncLit:
			l := f.declare(obj, "", "closure")
			f.closure(rhs, l)
			return 1, nil
		case *ast.CallExpr:
			if fn := f.calledFunc(rhs); fn != nil {
				switch fn.FullName() {
				case "github.com/prometheus/client_golang/prometheus.NewTimer":
					if len(rhs.Args) == 1 {
						if mname, ok := f.metricVar(rhs.Args[0]); ok {
							l := f.declare(obj, "", "timer")
							l.metric = mname
							return 1, []string{fmt.Sprintf("%sevent (Ev.timerStart %q)", ind, mname)}
						}
					}
					g.fail(x, "prometheus.NewTimer on something other than a package-level metric")
				}
			}
			// types := layerexts.DecodedTypes(s.layers)
			if tv, ok := g.info.Types[rhs.Fun]; ok && tv.IsType() && isNamed(tv.Type, modPath+"/pkg/layerexts", "DecodedTypes") && len(rhs.Args) == 1 {
				if path, ok := f.recvPath(rhs.Args[0]); ok && len(path) == 1 && f.isDecodedTypesField(path[0]) {
					l := f.declare(obj, "τ", "val")
					k := f.fresh("k")
					return 1, []string{ind + "let " + k + " ← getCell", fmt.Sprintf("%slet %s : τ := %s.decoded", ind, l.lean, k)}
				}
				g.fail(x, "layerexts.DecodedTypes of something other than the connection's decoded layer types")
			}
		}
		r := f.newRd()
		v, t := f.expr(x.Rhs[0], r)
		if t == "nil" || t == "" || t == "Opaque" || strings.HasPrefix(t, "ipmi_") || strings.HasPrefix(t, "layers_") {
			g.fail(x, "declaration of a local of type %s", t)
		}
		l := f.declare(obj, t, "val")
		return 1, append(cellLine(r, ind), fmt.Sprintf("%slet %s : %s := %s", ind, l.lean, t, v))
	}
	for _, l := range x.Lhs {
		if path, ok := f.recvPath(l); ok && len(path) > 0 && path[0].Name() == "AuthenticatedSequenceNumbers" {
			g.fail(x, "the sequence counter is written other than by ++")
		}
	}
	if x.Tok != token.ASSIGN || len(x.Lhs) != 1 || len(x.Rhs) != 1 {
		g.fail(x, "assignment outside the language")
	}
	// a local
	if id, ok := x.Lhs[0].(*ast.Ident); ok {
		l, ok := f.locals[g.info.Uses[id]]
		if !ok || l.kind != "val" {
			g.fail(x, "assignment to %s", id.Name)
		}
		f.checkCaptured(id, l)
		r := f.newRd()
		v, t := f.expr(x.Rhs[0], r)
		if t == "nil" && l.ty == "Option GoErr" {
			v, t = "none", l.ty
		}
		if t != l.ty {
			g.fail(x, "assignment of a %s to a %s", t, l.ty)
		}
		return 1, append(cellLine(r, ind), fmt.Sprintf("%slet %s : %s := %s", ind, l.lean, l.ty, v))
	}
	// a layer struct of the connection, or a field of one
	path, ok := f.recvPath(x.Lhs[0])
	if !ok {
		g.fail(x, "assignment outside the language")
	}
	if isCounter(path) || (len(path) > 0 && path[0].Name() == "AuthenticatedSequenceNumbers") {
		g.fail(x, "the sequence counter is written other than by ++")
	}
	lf, isLayer := f.layerOf(path[0])
	if !isLayer {
		g.fail(x, "a field of the receiver other than a layer struct is written: %s", types.ExprString(x.Lhs[0]))
	}
	r := &rd{cell: "k"}
	v, t := f.expr(x.Rhs[0], r)
	// the type of the target
	tt := path[len(path)-1].Type()
	want := g.leanType(tt)
	if t == "nil" && want == "Opaque" {
		v, t = "0", "Opaque"
	}
	if want == "" || t != want {
		g.fail(x, "assignment of a %s to a field of type %s", t, tt)
	}
	// nested record update
	target := "k.layers." + lf.lean
	upd := v
	for i := len(path) - 1; i >= 1; i-- {
		prefix := target
		for _, p := range path[1:i] {
			prefix += "." + fieldLean(p)
		}
		upd = fmt.Sprintf("{ %s with %s := %s }", prefix, fieldLean(path[i]), upd)
	}
	return 1, []string{fmt.Sprintf("%smodifyCell (fun k => { k with layers := { k.layers with %s := %s } })", ind, lf.lean, upd)}
}

func (f *fnCtx) isDecodedTypesField(v *types.Var) bool {
	s, ok := v.Type().Underlying().(*types.Slice)
	return ok && isNamed(s.Elem(), "github.com/google/gopacket", "LayerType")
}

// sendIdiom: the per-attempt context around exactly one Send of what the buffer holds
func (f *fnCtx) sendIdiom(stmts []ast.Stmt, ind string) []string {
	g := f.g
	if len(stmts) < 3 {
		g.fail(stmts[0], "context.WithTimeout not followed by the Send and cancel()")
	}
	a := stmts[0].(*ast.AssignStmt)
	c := a.Rhs[0].(*ast.CallExpr)
	ctxId, ok1 := a.Lhs[0].(*ast.Ident)
	cancelId, ok2 := a.Lhs[1].(*ast.Ident)
	if !ok1 || !ok2 || ctxId.Name == "_" || cancelId.Name == "_" || len(c.Args) != 2 || !f.isCtx(c.Args[0]) || !f.isTimeout(c.Args[1]) {
		g.fail(a, "context.WithTimeout other than requestCtx, cancel := context.WithTimeout(ctx, s.timeout)")
	}
	b, ok := stmts[1].(*ast.AssignStmt)
	if !ok || b.Tok != token.DEFINE || len(b.Lhs) != 2 || len(b.Rhs) != 1 {
		g.fail(stmts[1], "context.WithTimeout not followed by response, err := s.transport.Send(requestCtx, s.buffer.Bytes())")
	}
	sc, ok := b.Rhs[0].(*ast.CallExpr)
	if !ok || len(sc.Args) != 2 {
		g.fail(b, "context.WithTimeout not followed by the Send")
	}
	se, ok := sc.Fun.(*ast.SelectorExpr)
	if !ok || se.Sel.Name != "Send" {
		g.fail(b, "context.WithTimeout not followed by the Send")
	}
	path, ok := f.recvPath(se.X)
	if !ok || len(path) != 1 || !isNamed(path[0].Type(), modPath+"/internal/pkg/transport", "Transport") {
		g.fail(b, "Send on something other than the connection's transport")
	}
	if id, ok := sc.Args[0].(*ast.Ident); !ok || g.info.Uses[id] != g.info.Defs[ctxId] {
		g.fail(b, "Send under a context other than the per-attempt one")
	}
	if !f.isBufferBytes(sc.Args[1]) {
		g.fail(b, "Send of something other than s.buffer.Bytes()")
	}
	cs, ok := stmts[2].(*ast.ExprStmt)
	if ok {
		cc, ok2 := cs.X.(*ast.CallExpr)
		ok = ok2 && len(cc.Args) == 0
		if ok {
			id, ok3 := cc.Fun.(*ast.Ident)
			ok = ok3 && g.info.Uses[id] == g.info.Defs[cancelId]
		}
	}
	if !ok {
		g.fail(stmts[2], "the Send is not followed at once by cancel()")
	}
	respId, ok1 := b.Lhs[0].(*ast.Ident)
	errId, ok2 := b.Lhs[1].(*ast.Ident)
	if !ok1 || !ok2 || respId.Name == "_" || errId.Name == "_" {
		g.fail(b, "results of the Send")
	}
	f.declare(g.info.Defs[ctxId], "", "ctx")
	f.declare(g.info.Defs[cancelId], "", "cancel")
	resp := f.declare(g.info.Defs[respId], "Bytes", "val")
	er := f.declare(g.info.Defs[errId], "Option GoErr", "val")
	k, t := f.fresh("k"), f.fresh("t")
	return []string{
		ind + "let " + k + " ← getCell",
		fmt.Sprintf("%slet %s ← transportSend W %s.buffer", ind, t, k),
		fmt.Sprintf("%slet %s : Bytes := %s.1", ind, resp.lean, t),
		fmt.Sprintf("%slet %s : Option GoErr := %s.2", ind, er.lean, t),
	}
}

func (f *fnCtx) isCtx(e ast.Expr) bool {
	id, ok := e.(*ast.Ident)
	return ok && f.g.info.Uses[id] == f.ctxParam
}

func (f *fnCtx) isTimeout(e ast.Expr) bool {
	path, ok := f.recvPath(e)
	return ok && len(path) == 1 && isNamed(path[0].Type(), "time", "Duration")
}

func (f *fnCtx) isBuffer(e ast.Expr) bool {
	path, ok := f.recvPath(e)
	return ok && len(path) == 1 && isNamed(path[0].Type(), "github.com/google/gopacket", "SerializeBuffer")
}

func (f *fnCtx) isBufferBytes(e ast.Expr) bool {
	c, ok := e.(*ast.CallExpr)
	if !ok || len(c.Args) != 0 {
		return false
	}
	se, ok := c.Fun.(*ast.SelectorExpr)
	return ok && se.Sel.Name == "Bytes" && f.isBuffer(se.X)
}

func (f *fnCtx) isBackoff(e ast.Expr) bool {
	path, ok := f.recvPath(e)
	return ok && len(path) == 1 && isNamed(path[0].Type(), "github.com/cenkalti/backoff/v4", "BackOff")
}

// metricVar: a package-level variable of package bmc whose type comes from the Prometheus client
func (f *fnCtx) metricVar(e ast.Expr) (string, bool) {
	id, ok := e.(*ast.Ident)
	if !ok {
		return "", false
	}
	v, ok := f.g.info.Uses[id].(*types.Var)
	if !ok || v.Parent() != f.g.pkg.Types.Scope() {
		return "", false
	}
	t := v.Type()
	if p, ok := t.Underlying().(*types.Pointer); ok {
		t = p.Elem()
	}
	n, ok := types.Unalias(t).(*types.Named)
	if !ok || n.Obj().Pkg() == nil || n.Obj().Pkg().Path() != "github.com/prometheus/client_golang/prometheus" {
		return "", false
	}
	if where, bad := f.g.mutated[v]; bad {
		f.g.fail(e, "metric %s is written at %s", v.Name(), where)
	}
	return v.Name(), true
}

// ---- expression statements ---------------------------------------------------------------------------------------------------------

func (f *fnCtx) exprStmt(x *ast.ExprStmt, ind string) []string {
	g := f.g
	c, ok := x.X.(*ast.CallExpr)
	if !ok {
		g.fail(x, "statement outside the language")
	}
	se, ok := c.Fun.(*ast.SelectorExpr)
	if !ok {
		g.fail(x, "call statement outside the language: %s", types.ExprString(c))
	}
	// s.backoff.Reset()
	if se.Sel.Name == "Reset" && len(c.Args) == 0 && f.isBackoff(se.X) {
		if f.inClosure != nil {
			g.fail(x, "the back-off is reset inside the closure")
		}
		f.resetSeen = true
		return []string{ind + "-- " + types.ExprString(c) + " (backoff.Retry resets the policy itself)"}
	}
	// M.Inc() ; M.WithLabelValues(l…).Inc()
	if se.Sel.Name == "Inc" && len(c.Args) == 0 {
		if m, ok := f.metricVar(se.X); ok {
			return []string{fmt.Sprintf("%sevent (Ev.inc %q [])", ind, m)}
		}
		if wc, ok := se.X.(*ast.CallExpr); ok {
			if ws, ok := wc.Fun.(*ast.SelectorExpr); ok && ws.Sel.Name == "WithLabelValues" {
				if m, ok := f.metricVar(ws.X); ok {
					r := f.newRd()
					var labels []string
					for _, a := range wc.Args {
						labels = append(labels, f.label(a, r))
					}
					return append(cellLine(r, ind), fmt.Sprintf("%sevent (Ev.inc %q [%s])", ind, m, strings.Join(labels, ", ")))
				}
			}
		}
	}
	g.fail(x, "call statement outside the language: %s", types.ExprString(c))
	return nil
}

// label: code.String() of a completion code, or a Go string (the command's Name())
func (f *fnCtx) label(e ast.Expr, r *rd) string {
	g := f.g
	if c, ok := e.(*ast.CallExpr); ok {
		if fn := f.calledFunc(c); fn != nil && fn.FullName() == "("+modPath+"/pkg/ipmi.CompletionCode).String" && len(c.Args) == 0 {
			s, t := f.expr(c.Fun.(*ast.SelectorExpr).X, r)
			if t == "UInt8" {
				return "Label.code " + s
			}
		}
	}
	s, t := f.expr(e, r)
	if t == "String" {
		return "Label.str " + s
	}
	g.fail(e, "label value outside the language: %s", types.ExprString(e))
	return ""
}

// ---- calls returning an error ---------------------------------------------------------------------------------------------------------

// errCall: (lines to put in front, the Lean term of type Option GoErr)
func (f *fnCtx) errCall(c *ast.CallExpr, ind string) ([]string, string, bool) {
	g := f.g
	fn := f.calledFunc(c)
	se, _ := c.Fun.(*ast.SelectorExpr)
	// s.decode(response, &s.layers): a call of a field of function type
	if fn == nil && se != nil {
		if path, ok := f.recvPath(se); ok && len(path) == 1 && isNamed(path[0].Type(), "github.com/google/gopacket", "DecodingLayerFunc") {
			if len(c.Args) != 2 {
				g.fail(c, "the connection's decoder called with %d arguments", len(c.Args))
			}
			id, ok := c.Args[0].(*ast.Ident)
			var resp *local
			if ok {
				resp = f.locals[g.info.Uses[id]]
			}
			if resp == nil || resp.ty != "Bytes" {
				g.fail(c, "the connection's decoder on something other than the bytes received")
			}
			f.checkCaptured(id, resp)
			u, ok := c.Args[1].(*ast.UnaryExpr)
			okp := false
			if ok && u.Op == token.AND {
				if p, ok := f.recvPath(u.X); ok && len(p) == 1 && f.isDecodedTypesField(p[0]) {
					okp = true
				}
			}
			if !okp {
				g.fail(c, "the connection's decoder writing the layer types elsewhere than into the connection's slice")
			}
			t := f.fresh("t")
			return []string{fmt.Sprintf("%slet %s ← decodeLayers W %s", ind, t, resp.lean)}, t, true
		}
	}
	if fn == nil {
		return nil, "", false
	}
	full := fn.FullName()
	switch {
	case full == "github.com/google/gopacket.SerializeLayers":
		if len(c.Args) < 2 || !f.isBuffer(c.Args[0]) {
			g.fail(c, "SerializeLayers into something other than the connection's buffer")
		}
		r := f.newRd()
		opts, ot := f.expr(c.Args[1], r)
		if ot != "SerializeOptions" {
			g.fail(c.Args[1], "serialise options")
		}
		var args []string
		for _, a := range c.Args[2:] {
			args = append(args, f.layerArg(a, r))
		}
		if c.Ellipsis != token.NoPos {
			g.fail(c, "SerializeLayers with a slice of layers")
		}
		t := f.fresh("t")
		lines := cellLine(r, ind)
		lines = append(lines, fmt.Sprintf("%slet %s ← serializeLayers W %s [%s]", ind, t, opts, strings.Join(args, ", ")))
		return lines, t, true
	case full == "("+modPath+"/pkg/layerexts.DecodedTypes).InnermostEquals" && se != nil && len(c.Args) == 1:
		id, ok := se.X.(*ast.Ident)
		var tl *local
		if ok {
			tl = f.locals[g.info.Uses[id]]
		}
		if tl == nil || tl.ty != "τ" {
			g.fail(c, "InnermostEquals on something other than the decoded layer types")
		}
		f.checkCaptured(id, tl)
		lt := f.layerTy(c.Args[0])
		return nil, fmt.Sprintf("(innermostEquals W %s LayerTy.%s)", tl.lean, lt), true
	case fn.Name() == "DecodeFromBytes" && se != nil && len(c.Args) == 2:
		rc, ok := se.X.(*ast.CallExpr)
		if !ok {
			return nil, "", false
		}
		recv, rt, ok := f.getter(rc)
		if !ok || !isInterface(rt) {
			return nil, "", false
		}
		if s, ok := c.Args[1].(*ast.SelectorExpr); !ok || s.Sel.Name != "NilDecodeFeedback" {
			g.fail(c, "DecodeFromBytes with a feedback other than gopacket.NilDecodeFeedback")
		}
		r := f.newRd()
		b, bt := f.expr(c.Args[0], r)
		if bt != "Bytes" {
			g.fail(c.Args[0], "DecodeFromBytes of a %s", bt)
		}
		return cellLine(r, ind), fmt.Sprintf("(decodeFromBytes W %s %s)", recv, b), true
	case full == "github.com/cenkalti/backoff/v4.Retry" && len(c.Args) == 2:
		return f.retryCall(c, ind)
	case fn.Pkg() == g.pkg.Types && se != nil:
		// a translated method of the same receiver, called on it with (ctx, c)
		sig := fn.Type().(*types.Signature)
		if sig.Recv() == nil {
			return nil, "", false
		}
		id, ok := se.X.(*ast.Ident)
		if !ok || g.info.Uses[id] != f.recv {
			return nil, "", false
		}
		key := f.recvNamed.Obj().Name() + "." + fn.Name()
		info, ok := g.done[key]
		if !ok {
			g.fail(c, "call of %s, which is not translated", key)
		}
		if len(c.Args) != 2 || !f.isCtx(c.Args[0]) {
			g.fail(c, "arguments of %s", key)
		}
		if id, ok := c.Args[1].(*ast.Ident); !ok || g.info.Uses[id] != f.iface {
			g.fail(c, "arguments of %s", key)
		}
		if sig.Results().Len() != 1 {
			g.fail(c, "results of %s", key)
		}
		if info.usesFuel {
			f.usesFuel = true
		}
		if info.usesRecv {
			f.usesRecv = true
		}
		if info.usesIface {
			f.usesIface = true
		}
		t := f.fresh("t")
		return []string{fmt.Sprintf("%slet %s ← %s W%s", ind, t, info.lean, f.argParams(info.usesFuel, info.usesRecv, info.usesIface))}, t, true
	}
	return nil, "", false
}

func (f *fnCtx) layerTy(e ast.Expr) string {
	g := f.g
	se, ok := e.(*ast.SelectorExpr)
	if ok {
		if v, ok := g.info.Uses[se.Sel].(*types.Var); ok && v.Parent() == v.Pkg().Scope() && isNamed(v.Type(), "github.com/google/gopacket", "LayerType") {
			if where, bad := g.mutated[v]; bad {
				g.fail(e, "layer type %s is written at %s", v.Name(), where)
			}
			name := pkgShort(v.Pkg()) + "_" + v.Name()
			found := false
			for _, t := range g.layerTys {
				if t == name {
					found = true
				}
			}
			if !found {
				g.layerTys = append(g.layerTys, name)
			}
			return name
		}
	}
	g.fail(e, "a layer type other than a package-level LayerType variable")
	return ""
}

// layerArg: one layer handed to SerializeLayers
func (f *fnCtx) layerArg(a ast.Expr, r *rd) string {
	g := f.g
	if u, ok := a.(*ast.UnaryExpr); ok && u.Op == token.AND {
		if path, ok := f.recvPath(u.X); ok && len(path) == 1 {
			if l, ok := f.layerOf(path[0]); ok {
				return "LayerArg." + l.lean
			}
		}
		g.fail(a, "address of something other than a layer struct of the connection")
	}
	if c, ok := a.(*ast.CallExpr); ok {
		if fn := f.calledFunc(c); fn != nil && fn.FullName() == modPath+".serializableLayerOrEmpty" && len(c.Args) == 1 {
			f.orEmptyDef(c)
			v, t := f.expr(c.Args[0], r)
			if t != "Opaque" {
				g.fail(a, "argument of serializableLayerOrEmpty")
			}
			return "(bmc_serializableLayerOrEmpty " + v + ")"
		}
	}
	v, t := f.expr(a, r)
	if t == "Opaque" && isInterface(g.info.TypeOf(a)) {
		return "(LayerArg.iface " + v + ")"
	}
	g.fail(a, "layer argument outside the language: %s", types.ExprString(a))
	return ""
}

// orEmptyDef: serializableLayerOrEmpty must be exactly `if s == nil { return gopacket.Payload(nil) }; return s`
func (f *fnCtx) orEmptyDef(at ast.Node) {
	g := f.g
	if g.pkgDefSeen["bmc_serializableLayerOrEmpty"] {
		return
	}
	fd := g.funcs["serializableLayerOrEmpty"]
	bad := func() {
		g.fail(at, "serializableLayerOrEmpty is not `if s == nil { return gopacket.Payload(nil) }; return s`")
	}
	if fd == nil || fd.Recv != nil || len(fd.Type.Params.List) != 1 || len(fd.Type.Params.List[0].Names) != 1 || len(fd.Body.List) != 2 {
		bad()
	}
	p := g.info.Defs[fd.Type.Params.List[0].Names[0]]
	ifs, ok1 := fd.Body.List[0].(*ast.IfStmt)
	ret, ok2 := fd.Body.List[1].(*ast.ReturnStmt)
	if !ok1 || !ok2 || ifs.Init != nil || ifs.Else != nil || len(ifs.Body.List) != 1 || len(ret.Results) != 1 {
		bad()
	}
	be, ok := ifs.Cond.(*ast.BinaryExpr)
	if !ok || be.Op != token.EQL {
		bad()
	}
	x, ok1 := be.X.(*ast.Ident)
	y, ok2 := be.Y.(*ast.Ident)
	if !ok1 || !ok2 || g.info.Uses[x] != p || y.Name != "nil" {
		bad()
	}
	r1, ok := ifs.Body.List[0].(*ast.ReturnStmt)
	if !ok || len(r1.Results) != 1 {
		bad()
	}
	conv, ok := r1.Results[0].(*ast.CallExpr)
	if !ok || len(conv.Args) != 1 {
		bad()
	}
	if tv := g.info.Types[conv.Fun]; !tv.IsType() || !isNamed(tv.Type, "github.com/google/gopacket", "Payload") {
		bad()
	}
	if id, ok := conv.Args[0].(*ast.Ident); !ok || id.Name != "nil" {
		bad()
	}
	if id, ok := ret.Results[0].(*ast.Ident); !ok || g.info.Uses[id] != p {
		bad()
	}
	g.pkgDefSeen["bmc_serializableLayerOrEmpty"] = true
	g.pkgDefs = append(g.pkgDefs, fmt.Sprintf("/-- translated from `bmc.serializableLayerOrEmpty` (%s): `if s == nil { return gopacket.Payload(nil) }; return s` -/\ndef bmc_serializableLayerOrEmpty (s : Opaque) : LayerArg :=\n  if s == 0 then LayerArg.payloadNil else LayerArg.iface s\n", g.pos(fd)))
}

// ---- closures and backoff.Retry ------------------------------------------------------------------------------------------------------

// closure: func() error { … } ↦ the definition F_funcN over the captured variables it assigns
func (f *fnCtx) closure(fl *ast.FuncLit, l *local) {
	g := f.g
	if f.inClosure != nil {
		g.fail(fl, "a closure inside a closure")
	}
	if fl.Type.Params != nil && len(fl.Type.Params.List) > 0 {
		g.fail(fl, "a closure with parameters")
	}
	if fl.Type.Results == nil || len(fl.Type.Results.List) != 1 || !isError(g.info.TypeOf(fl.Type.Results.List[0].Type)) || len(fl.Type.Results.List[0].Names) > 0 {
		g.fail(fl, "a closure whose result is not (error)")
	}
	f.nclosure++
	name := fmt.Sprintf("%s_func%d", f.lean, f.nclosure)
	caps := f.assignedOuter(fl)
	for _, c := range caps {
		if c.kind != "val" {
			g.fail(fl, "the closure assigns %s", c.obj.Name())
		}
	}
	capV, capT := tupleOf(caps)
	f.inClosure, f.caps = fl, caps
	saveRecv, saveIface := f.usesRecv, f.usesIface
	f.usesRecv, f.usesIface = false, false
	m := mode{ret: func(vals []string) string { return "pure (" + capV + ", " + vals[0] + ")" }}
	var lines []string
	for i, c := range caps {
		lines = append(lines, fmt.Sprintf("  let %s : %s := %s", c.lean, c.ty, proj("cap", i, len(caps))))
	}
	lines = append(lines, f.block(fl.Body.List, "  ", m, false)...)
	f.inClosure, f.caps = nil, nil
	usesRecv, usesIface := f.usesRecv, f.usesIface
	f.usesRecv, f.usesIface = saveRecv || usesRecv, saveIface || usesIface

	var b strings.Builder
	var capNames []string
	for _, c := range caps {
		capNames = append(capNames, c.obj.Name())
	}
	fmt.Fprintf(&b, "/-- the closure at %s of `(*%s.%s).%s`; `cap` = the variables of the enclosing function it assigns (%s), returned with its result -/\n",
		g.pos(fl), pkgShort(g.pkg.Types), f.recvNamed.Obj().Name(), f.decl.Name.Name, strings.Join(capNames, ", "))
	sig := ""
	if usesRecv {
		sig += fmt.Sprintf(" (%s : %sConsts)", f.recvLean, f.recvNamed.Obj().Name())
	}
	if usesIface {
		n := types.Unalias(f.iface.Type()).(*types.Named)
		sig += fmt.Sprintf(" (%s : %s_%s)", f.ifaceLean, pkgShort(n.Obj().Pkg()), n.Obj().Name())
	}
	fmt.Fprintf(&b, "def %s {σ τ : Type} (W : World σ τ)%s (cap : %s) : M (σ × Conn τ) (%s × Option GoErr) := do\n", name, sig, capT, capT)
	for _, ln := range lines {
		b.WriteString(ln)
		b.WriteString("\n")
	}
	f.closures = append(f.closures, b.String())
	l.def = name + " W" + f.argParams(false, usesRecv, usesIface)
	l.captured = caps
}

// retryCall: backoff.Retry(<closure>, backoff.WithContext(s.backoff, ctx))
func (f *fnCtx) retryCall(c *ast.CallExpr, ind string) ([]string, string, bool) {
	g := f.g
	if f.inClosure != nil {
		g.fail(c, "backoff.Retry inside a closure")
	}
	wc, ok := c.Args[1].(*ast.CallExpr)
	if !ok || len(wc.Args) != 2 {
		g.fail(c, "backoff.Retry with a policy other than backoff.WithContext(s.backoff, ctx)")
	}
	if fn := f.calledFunc(wc); fn == nil || fn.FullName() != "github.com/cenkalti/backoff/v4.WithContext" || !f.isBackoff(wc.Args[0]) || !f.isCtx(wc.Args[1]) {
		g.fail(c, "backoff.Retry with a policy other than backoff.WithContext(s.backoff, ctx)")
	}
	if !f.resetSeen {
		g.fail(c, "backoff.Retry without s.backoff.Reset() before it")
	}
	var cl *local
	switch op := c.Args[0].(type) {
	case *ast.Ident:
		cl = f.locals[g.info.Uses[op]]
		if cl == nil || cl.kind != "closure" {
			g.fail(c, "backoff.Retry of something other than a closure of this function")
		}
	case *ast.FuncLit:
		cl = &local{kind: "closure"}
		f.closure(op, cl)
	default:
		g.fail(c, "backoff.Retry of something other than a closure of this function")
	}
	f.usesFuel = true
	capV, _ := tupleOf(cl.captured)
	j := f.fresh("j")
	lines := []string{fmt.Sprintf("%slet %s ← backoffRetry W.backoffWait fuel (%s) %s", ind, j, cl.def, capV)}
	lines = append(lines, f.rebind(cl.captured, j+".1", ind)...)
	return lines, j + ".2", true
}
