package main

// Types, structures and expressions.
//
//   Go type                                   Lean
//   uint8/16/32/64 (also named)               UInt8/16/32/64 (wrapping arithmetic, like Go)
//   bool                                      Bool
//   []byte                                    Bytes
//   string                                    String
//   a struct of such fields                   a structure with ALL its fields (layers.BaseLayer ↦ contents, payload); an embedded
//                                             field is named after its type
//   an interface, gopacket.LayerType          Opaque
//   error                                     Option GoErr
//
// Expressions: constants (their value as type-checked), locals, `!`, `&&`, `||`, `==`, `!=` (numbers; an error or interface
// value against nil), `+` on unsigned integers, field paths from the receiver (layer structs: read from the cell; the counter;
// read-only fields: `…Consts`), getters of the interface parameter, struct literals with keys, package-level variables holding
// such literals (never written in the module), `X.LayerPayload()` of a layer struct, and the calls listed in `call`.

import (
	"fmt"
	"go/ast"
	"go/constant"
	"go/token"
	"go/types"
	"strings"
)

var leanReserved = map[string]bool{"type": true, "end": true, "instance": true, "from": true, "at": true, "in": true, "then": true,
	"else": true, "do": true, "open": true, "private": true, "local": true, "prefix": true, "structure": true, "class": true,
	"where": true, "with": true, "if": true, "match": true, "fun": true, "let": true, "have": true, "show": true, "by": true,
	"of": true, "deriving": true, "mutual": true, "import": true, "export": true, "namespace": true, "section": true,
	"variable": true, "universe": true, "theorem": true, "def": true, "example": true, "inductive": true, "abbrev": true,
	"macro": true, "syntax": true, "notation": true, "infix": true, "attribute": true, "return": true, "for": true, "mut": true,
	"some": true, "none": true, "W": true, "fuel": true, "cap": true, "event": true, "retry": true, "pure": true}

// leanField: Go field name -> Lean field name (leading run of capitals lowered: ID -> id, RemoteLUN -> remoteLUN)
func leanField(goName string) string {
	rs := []rune(goName)
	n := 0
	for n < len(rs) && rs[n] >= 'A' && rs[n] <= 'Z' {
		n++
	}
	k := n
	if n > 1 && n < len(rs) && rs[n] >= 'a' && rs[n] <= 'z' {
		k = n - 1
	}
	s := strings.ToLower(string(rs[:k])) + string(rs[k:])
	if leanReserved[s] {
		s += "_"
	}
	return s
}

func isNamed(t types.Type, pkgPath, name string) bool {
	n, ok := types.Unalias(t).(*types.Named)
	return ok && n.Obj().Pkg() != nil && n.Obj().Pkg().Path() == pkgPath && n.Obj().Name() == name
}

func pkgShort(p *types.Package) string {
	path := p.Path()
	return path[strings.LastIndex(path, "/")+1:]
}

func (g *gen) structLean(n *types.Named) string {
	return pkgShort(n.Obj().Pkg()) + "_" + n.Obj().Name()
}

func isError(t types.Type) bool {
	n, ok := types.Unalias(t).(*types.Named)
	return ok && n.Obj().Pkg() == nil && n.Obj().Name() == "error"
}

func isInterface(t types.Type) bool {
	_, ok := t.Underlying().(*types.Interface)
	return ok && !isError(t)
}

func isByteSlice(t types.Type) bool {
	s, ok := t.Underlying().(*types.Slice)
	if !ok {
		return false
	}
	b, ok := s.Elem().Underlying().(*types.Basic)
	return ok && b.Kind() == types.Uint8
}

// leanType: the Lean type of a Go value type ("" = outside the language)
func (g *gen) leanType(t types.Type) string {
	if isError(t) {
		return "Option GoErr"
	}
	if isNamed(t, "github.com/google/gopacket", "LayerType") || isInterface(t) {
		return "Opaque"
	}
	if isByteSlice(t) {
		return "Bytes"
	}
	switch u := t.Underlying().(type) {
	case *types.Basic:
		switch u.Kind() {
		case types.Uint8:
			return "UInt8"
		case types.Uint16:
			return "UInt16"
		case types.Uint32:
			return "UInt32"
		case types.Uint64:
			return "UInt64"
		case types.Bool, types.UntypedBool:
			return "Bool"
		case types.String:
			return "String"
		}
	case *types.Struct:
		if n, ok := types.Unalias(t).(*types.Named); ok && g.useStruct(n) {
			return g.structLean(n)
		}
	}
	return ""
}

// useStruct: record that the structure is needed; false when a field is outside the language
func (g *gen) useStruct(n *types.Named) bool {
	if done, ok := g.structDone[n]; ok {
		return done
	}
	g.structDone[n] = true // (recursive structs do not occur: a cycle would need a pointer, which is outside the language)
	st := n.Underlying().(*types.Struct)
	for i := 0; i < st.NumFields(); i++ {
		f := st.Field(i)
		if isNamed(f.Type(), "github.com/google/gopacket/layers", "BaseLayer") && f.Embedded() {
			continue
		}
		if g.leanType(f.Type()) == "" {
			g.structDone[n] = false
			return false
		}
	}
	g.structSeen = append(g.structSeen, n)
	return true
}

func zeroOf(lean string) string {
	switch lean {
	case "UInt8", "UInt16", "UInt32", "UInt64", "Opaque":
		return "0"
	case "Bool":
		return "false"
	case "Bytes":
		return "[]"
	case "String":
		return "\"\""
	case "Option GoErr":
		return "none"
	}
	return "{}"
}

func (g *gen) structDecls() string {
	var b strings.Builder
	for _, n := range g.structSeen {
		st := n.Underlying().(*types.Struct)
		fmt.Fprintf(&b, "/-- `%s.%s` (every field) -/\nstructure %s where\n", pkgShort(n.Obj().Pkg()), n.Obj().Name(), g.structLean(n))
		for i := 0; i < st.NumFields(); i++ {
			f := st.Field(i)
			if isNamed(f.Type(), "github.com/google/gopacket/layers", "BaseLayer") && f.Embedded() {
				b.WriteString("  contents : Bytes := []      -- BaseLayer.Contents\n  payload : Bytes := []       -- BaseLayer.Payload\n")
				continue
			}
			lt := g.leanType(f.Type())
			fmt.Fprintf(&b, "  %s : %s := %s\n", leanField(f.Name()), lt, zeroOf(lt))
		}
		b.WriteString("  deriving Repr, DecidableEq\n\n")
	}
	return b.String()
}

// ---- expressions ---------------------------------------------------------------------------------------------------------

// rd: where the reads of the connection's state in an expression come from
type rd struct {
	cell string // the Lean variable holding the cell (`Conn`)
	used bool
}

// constant expression: its value at its Go type
func (f *fnCtx) constExpr(e ast.Expr) (string, string, bool) {
	tv, ok := f.g.info.Types[e]
	if !ok || tv.Value == nil {
		return "", "", false
	}
	lt := f.g.leanType(tv.Type)
	switch tv.Value.Kind() {
	case constant.Bool:
		if constant.BoolVal(tv.Value) {
			return "true", "Bool", true
		}
		return "false", "Bool", true
	case constant.Int:
		if strings.HasPrefix(lt, "UInt") {
			return fmt.Sprintf("(%s : %s)", tv.Value.ExactString(), lt), lt, true
		}
	case constant.String:
		if lt == "String" {
			return fmt.Sprintf("%q", constant.StringVal(tv.Value)), lt, true
		}
	}
	return "", "", false
}

// path from the receiver: the explicit and the promoted fields, the connection's own embedded structs left out
func (f *fnCtx) recvPath(e ast.Expr) ([]*types.Var, bool) {
	var chain []*ast.SelectorExpr
	cur := e
	for {
		if p, ok := cur.(*ast.ParenExpr); ok {
			cur = p.X
			continue
		}
		se, ok := cur.(*ast.SelectorExpr)
		if !ok {
			break
		}
		chain = append([]*ast.SelectorExpr{se}, chain...)
		cur = se.X
	}
	id, ok := cur.(*ast.Ident)
	if !ok || f.recv == nil || f.g.info.Uses[id] != f.recv || len(chain) == 0 {
		return nil, false
	}
	var path []*types.Var
	for _, se := range chain {
		sel := f.g.info.Selections[se]
		if sel == nil || sel.Kind() != types.FieldVal {
			return nil, false
		}
		t := sel.Recv()
		idx := sel.Index()
		for _, i := range idx {
			if p, ok := t.Underlying().(*types.Pointer); ok {
				t = p.Elem()
			}
			st, ok := t.Underlying().(*types.Struct)
			if !ok {
				return nil, false
			}
			v := st.Field(i)
			path = append(path, v)
			t = v.Type()
		}
	}
	// the connection's own embedded structs (v2ConnectionLayers, *v2ConnectionShared) are transparent
	var out []*types.Var
	for i, v := range path {
		if v.Embedded() && len(out) == 0 && i < len(path)-1 {
			t := v.Type()
			if p, ok := t.Underlying().(*types.Pointer); ok {
				t = p.Elem()
			}
			if n, ok := types.Unalias(t).(*types.Named); ok && n.Obj().Pkg() == f.g.pkg.Types {
				continue
			}
		}
		out = append(out, v)
	}
	return out, true
}

// layerOf: the root field is one of the connection's layer structs
func (f *fnCtx) layerOf(v *types.Var) (layerField, bool) {
	n, ok := types.Unalias(v.Type()).(*types.Named)
	if !ok {
		return layerField{}, false
	}
	if _, ok := n.Underlying().(*types.Struct); !ok {
		return layerField{}, false
	}
	if n.Obj().Pkg() == f.g.pkg.Types {
		return layerField{}, false // sequenceNumbers and the like are not layers
	}
	// a layer: a struct that embeds layers.BaseLayer
	st := n.Underlying().(*types.Struct)
	isLayer := false
	for i := 0; i < st.NumFields(); i++ {
		if st.Field(i).Embedded() && isNamed(st.Field(i).Type(), "github.com/google/gopacket/layers", "BaseLayer") {
			isLayer = true
		}
	}
	if !isLayer || !f.g.useStruct(n) {
		return layerField{}, false
	}
	name := n.Obj().Name()
	lean := strings.ToLower(name[:1]) + name[1:]
	if name == strings.ToUpper(name) {
		lean = strings.ToLower(name)
	}
	if leanReserved[lean] {
		lean += "_"
	}
	for _, l := range f.g.layerFields {
		if l.named == n {
			return l, true
		}
		if l.lean == lean {
			return layerField{}, false
		}
	}
	// the receiver must not hold two structs of this type (the fields are told apart by type)
	cnt := 0
	var count func(t types.Type)
	count = func(t types.Type) {
		if p, ok := t.Underlying().(*types.Pointer); ok {
			t = p.Elem()
		}
		st, ok := t.Underlying().(*types.Struct)
		if !ok {
			return
		}
		for i := 0; i < st.NumFields(); i++ {
			ft := st.Field(i).Type()
			if types.Identical(ft, n) {
				cnt++
			} else if st.Field(i).Embedded() {
				count(ft)
			}
		}
	}
	count(f.recvNamed)
	if cnt != 1 {
		return layerField{}, false
	}
	l := layerField{lean: lean, tyLean: f.g.structLean(n), named: n}
	f.g.layerFields = append(f.g.layerFields, l)
	return l, true
}

func fieldLean(v *types.Var) string {
	if v.Embedded() {
		t := v.Type()
		if p, ok := t.Underlying().(*types.Pointer); ok {
			t = p.Elem()
		}
		if n, ok := types.Unalias(t).(*types.Named); ok {
			return leanField(n.Obj().Name())
		}
	}
	return leanField(v.Name())
}

func isCounter(path []*types.Var) bool {
	return len(path) == 2 && path[0].Name() == "AuthenticatedSequenceNumbers" && path[1].Name() == "Inbound" &&
		!path[0].Embedded()
}

// readRecv: a read of a field path from the receiver
func (f *fnCtx) readRecv(e ast.Expr, path []*types.Var, r *rd) (string, string) {
	if isCounter(path) {
		r.used = true
		return r.cell + ".inbound", "UInt32"
	}
	if l, ok := f.layerOf(path[0]); ok {
		s := r.cell + ".layers." + l.lean
		t := path[0].Type()
		for _, v := range path[1:] {
			if isNamed(v.Type(), "github.com/google/gopacket/layers", "BaseLayer") {
				f.g.fail(e, "the BaseLayer of a layer struct as a value")
			}
			s += "." + fieldLean(v)
			t = v.Type()
		}
		lt := f.g.leanType(t)
		if lt == "" {
			f.g.fail(e, "a field of type %s", t)
		}
		r.used = true
		return s, lt
	}
	// a read-only field of the receiver
	if len(path) == 1 {
		lt := f.g.leanType(path[0].Type())
		if lt == "UInt8" || lt == "UInt16" || lt == "UInt32" || lt == "UInt64" || lt == "Bool" || (lt == "Opaque" && isInterface(path[0].Type())) {
			if isNamed(path[0].Type(), "github.com/gebn/bmc/internal/pkg/transport", "Transport") ||
				isNamed(path[0].Type(), "github.com/cenkalti/backoff/v4", "BackOff") ||
				isNamed(path[0].Type(), "github.com/google/gopacket", "SerializeBuffer") {
				f.g.fail(e, "the connection's %s used as a value", path[0].Name())
			}
			return f.recvConst(leanField(path[0].Name()), lt, "`"+f.recv.Name()+"."+path[0].Name()+"`"), lt
		}
	}
	f.g.fail(e, "a field of the receiver outside the language: %s", types.ExprString(e))
	return "", ""
}

func (f *fnCtx) recvConst(lean, ty, doc string) string {
	f.usesRecv = true
	r := f.recvNamed.Obj().Name()
	fs := f.g.consts[r]
	found := false
	for _, x := range fs {
		if x.lean == lean {
			found = true
		}
	}
	if !found {
		if _, ok := f.g.consts[r]; !ok {
			f.g.constOrder = append(f.g.constOrder, r)
		}
		f.g.consts[r] = append(fs, field{lean, ty, doc})
	}
	return f.recvLean + "." + lean
}

// getter: a method of the interface parameter called without arguments
func (f *fnCtx) getter(call *ast.CallExpr) (string, types.Type, bool) {
	se, ok := call.Fun.(*ast.SelectorExpr)
	if !ok || len(call.Args) != 0 {
		return "", nil, false
	}
	id, ok := se.X.(*ast.Ident)
	if !ok || f.iface == nil || f.g.info.Uses[id] != f.iface {
		return "", nil, false
	}
	sel := f.g.info.Selections[se]
	if sel == nil || sel.Kind() != types.MethodVal {
		return "", nil, false
	}
	res := sel.Type().(*types.Signature).Results()
	if res.Len() != 1 {
		return "", nil, false
	}
	rt := res.At(0).Type()
	vt := rt
	if p, ok := rt.Underlying().(*types.Pointer); ok {
		vt = p.Elem() // a pointer to a struct: the struct it points to (non-nil, not changed during the call)
		if _, ok := vt.Underlying().(*types.Struct); !ok {
			return "", nil, false
		}
	}
	lt := f.g.leanType(vt)
	if lt == "" {
		f.g.fail(call, "a getter of type %s", rt)
	}
	f.usesIface = true
	n := types.Unalias(f.iface.Type()).(*types.Named)
	key := pkgShort(n.Obj().Pkg()) + "_" + n.Obj().Name()
	lean := leanField(se.Sel.Name)
	found := false
	for _, x := range f.g.ifaces[key] {
		if x.lean == lean {
			found = true
		}
	}
	if !found {
		if _, ok := f.g.ifaces[key]; !ok {
			f.g.ifaceOrder = append(f.g.ifaceOrder, key)
		}
		f.g.ifaces[key] = append(f.g.ifaces[key], field{lean, lt, "`" + se.Sel.Name + "()`"})
	}
	return f.ifaceLean + "." + lean, rt, true
}

// expr: a value expression; returns the Lean term and its Lean type
func (f *fnCtx) expr(e ast.Expr, r *rd) (string, string) {
	g := f.g
	if s, t, ok := f.constExpr(e); ok {
		return s, t
	}
	switch x := e.(type) {
	case *ast.ParenExpr:
		return f.expr(x.X, r)
	case *ast.Ident:
		if x.Name == "nil" {
			if tv, ok := g.info.Types[x]; ok && tv.IsNil() {
				return "nil", "nil"
			}
		}
		if l, ok := f.locals[g.info.Uses[x]]; ok && l.ty != "" {
			f.checkCaptured(x, l)
			return l.lean, l.ty
		}
		if v, ok := g.info.Uses[x].(*types.Var); ok && v.Parent() == g.pkg.Types.Scope() {
			return f.pkgVar(x, v)
		}
	case *ast.UnaryExpr:
		if x.Op == token.NOT {
			s, t := f.expr(x.X, r)
			if t == "Bool" {
				return "(!" + s + ")", "Bool"
			}
		}
	case *ast.StarExpr:
		if c, ok := x.X.(*ast.CallExpr); ok {
			if s, rt, ok := f.getter(c); ok {
				if _, isPtr := rt.Underlying().(*types.Pointer); isPtr {
					return s, g.leanType(rt.Underlying().(*types.Pointer).Elem())
				}
			}
		}
	case *ast.BinaryExpr:
		switch x.Op {
		case token.LAND, token.LOR:
			a, ta := f.expr(x.X, r)
			b, tb := f.expr(x.Y, r)
			if ta == "Bool" && tb == "Bool" {
				op := "&&"
				if x.Op == token.LOR {
					op = "||"
				}
				return "(" + a + " " + op + " " + b + ")", "Bool"
			}
		case token.EQL, token.NEQ:
			a, ta := f.expr(x.X, r)
			b, tb := f.expr(x.Y, r)
			op := "=="
			if x.Op == token.NEQ {
				op = "!="
			}
			if tb == "nil" && ta == "Option GoErr" {
				return "(" + a + " " + op + " none)", "Bool"
			}
			if tb == "nil" && ta == "Opaque" && isInterface(g.info.TypeOf(x.X)) {
				return "(" + a + " " + op + " 0)", "Bool"
			}
			if ta == tb && (strings.HasPrefix(ta, "UInt") || ta == "Bool") {
				return "(" + a + " " + op + " " + b + ")", "Bool"
			}
		case token.ADD:
			a, ta := f.expr(x.X, r)
			b, tb := f.expr(x.Y, r)
			if ta == tb && strings.HasPrefix(ta, "UInt") {
				return "(" + a + " + " + b + ")", ta
			}
		}
	case *ast.SelectorExpr:
		if path, ok := f.recvPath(x); ok {
			return f.readRecv(x, path, r)
		}
		if id, ok := x.X.(*ast.Ident); ok {
			if _, isPkg := g.info.Uses[id].(*types.PkgName); isPkg {
				if v, ok := g.info.Uses[x.Sel].(*types.Var); ok {
					return f.pkgVar(x, v)
				}
			}
		}
	case *ast.CompositeLit:
		return f.structLit(x, r)
	case *ast.CallExpr:
		return f.call(x, r)
	}
	g.fail(e, "expression outside the language: %s", types.ExprString(e))
	return "", ""
}

// structLit: T{K: v, …} with keys; every field not named holds its zero value
func (f *fnCtx) structLit(x *ast.CompositeLit, r *rd) (string, string) {
	g := f.g
	t := g.info.TypeOf(x)
	n, ok := types.Unalias(t).(*types.Named)
	if !ok {
		g.fail(x, "composite literal of type %s", t)
	}
	st, ok := n.Underlying().(*types.Struct)
	if !ok || !g.useStruct(n) {
		g.fail(x, "composite literal of type %s", t)
	}
	var parts []string
	for _, el := range x.Elts {
		kv, ok := el.(*ast.KeyValueExpr)
		if !ok {
			g.fail(el, "struct literal without keys")
		}
		key := kv.Key.(*ast.Ident)
		var fv *types.Var
		for i := 0; i < st.NumFields(); i++ {
			if st.Field(i).Name() == key.Name {
				fv = st.Field(i)
			}
		}
		if fv == nil || isNamed(fv.Type(), "github.com/google/gopacket/layers", "BaseLayer") {
			g.fail(el, "field %s in a struct literal", key.Name)
		}
		want := g.leanType(fv.Type())
		v, vt := f.expr(kv.Value, r)
		if vt == "nil" && want == "Opaque" {
			v, vt = "0", "Opaque"
		}
		if vt != want {
			g.fail(kv.Value, "a value of type %s for a field of type %s", vt, want)
		}
		parts = append(parts, fieldLean(fv)+" := "+v)
	}
	return "({ " + strings.Join(parts, ", ") + " } : " + g.structLean(n) + ")", g.structLean(n)
}

// pkgVar: a package-level variable of the module: an error sentinel, gopacket.SerializeOptions, or a struct literal of
// constants — never written anywhere in the module (an exported one assigned by a client is outside the translation)
func (f *fnCtx) pkgVar(e ast.Expr, v *types.Var) (string, string) {
	g := f.g
	if where, bad := g.mutated[v]; bad {
		g.fail(e, "package-level variable %s is written or has its address taken at %s", v.Name(), where)
	}
	var init ast.Expr
	var home *types.Info
	for _, p := range g.mods {
		if p.Types != v.Pkg() {
			continue
		}
		for _, file := range p.Syntax {
			for _, d := range file.Decls {
				gd, ok := d.(*ast.GenDecl)
				if !ok || gd.Tok != token.VAR {
					continue
				}
				for _, sp := range gd.Specs {
					vs := sp.(*ast.ValueSpec)
					for i, nm := range vs.Names {
						if p.TypesInfo.Defs[nm] == v && len(vs.Values) == len(vs.Names) {
							init, home = vs.Values[i], p.TypesInfo
						}
					}
				}
			}
		}
	}
	if init == nil {
		g.fail(e, "package-level variable %s: no initialiser found", v.Name())
	}
	if isError(v.Type()) {
		c, ok := init.(*ast.CallExpr)
		if ok {
			if se, ok := c.Fun.(*ast.SelectorExpr); ok {
				if fn, ok := home.Uses[se.Sel].(*types.Func); ok && fn.Pkg() != nil && fn.Pkg().Path() == "errors" && fn.Name() == "New" {
					return "(some GoErr.sentinel)", "Option GoErr"
				}
			}
		}
		g.fail(e, "error variable %s is not initialised by errors.New", v.Name())
	}
	lean := pkgShort(v.Pkg()) + "_" + v.Name()
	if isNamed(v.Type(), "github.com/google/gopacket", "SerializeOptions") {
		if !g.pkgDefSeen[lean] {
			g.pkgDefSeen[lean] = true
			cl, ok := init.(*ast.CompositeLit)
			if !ok {
				g.fail(e, "initialiser of %s", v.Name())
			}
			vals := map[string]string{"FixLengths": "false", "ComputeChecksums": "false"}
			for _, el := range cl.Elts {
				kv, ok := el.(*ast.KeyValueExpr)
				if !ok {
					g.fail(e, "initialiser of %s", v.Name())
				}
				tv := home.Types[kv.Value]
				k := kv.Key.(*ast.Ident).Name
				if _, known := vals[k]; !known || tv.Value == nil || tv.Value.Kind() != constant.Bool {
					g.fail(e, "initialiser of %s", v.Name())
				}
				vals[k] = fmt.Sprint(constant.BoolVal(tv.Value))
			}
			g.pkgDefs = append(g.pkgDefs, fmt.Sprintf("/-- `%s.%s` (never written in the module) -/\ndef %s : SerializeOptions := { fixLengths := %s, computeChecksums := %s }\n",
				pkgShort(v.Pkg()), v.Name(), lean, vals["FixLengths"], vals["ComputeChecksums"]))
		}
		return lean, "SerializeOptions"
	}
	lt := g.leanType(v.Type())
	n, isN := types.Unalias(v.Type()).(*types.Named)
	cl, isLit := init.(*ast.CompositeLit)
	if lt == "" || !isN || !isLit {
		g.fail(e, "package-level variable %s of type %s", v.Name(), v.Type())
	}
	if !g.pkgDefSeen[lean] {
		g.pkgDefSeen[lean] = true
		st := n.Underlying().(*types.Struct)
		var parts []string
		for _, el := range cl.Elts {
			kv, ok := el.(*ast.KeyValueExpr)
			if !ok {
				g.fail(e, "initialiser of %s", v.Name())
			}
			tv := home.Types[kv.Value]
			var fv *types.Var
			for i := 0; i < st.NumFields(); i++ {
				if st.Field(i).Name() == kv.Key.(*ast.Ident).Name {
					fv = st.Field(i)
				}
			}
			if fv == nil || tv.Value == nil || tv.Value.Kind() != constant.Int || !strings.HasPrefix(g.leanType(fv.Type()), "UInt") {
				g.fail(e, "initialiser of %s: field %s is not an integer constant", v.Name(), types.ExprString(kv.Key))
			}
			parts = append(parts, fmt.Sprintf("%s := (%s : %s)", fieldLean(fv), tv.Value.ExactString(), g.leanType(fv.Type())))
		}
		g.pkgDefs = append(g.pkgDefs, fmt.Sprintf("/-- `%s.%s` (never written in the module) -/\ndef %s : %s := { %s }\n",
			pkgShort(v.Pkg()), v.Name(), lean, lt, strings.Join(parts, ", ")))
	}
	return lean, lt
}

// regenerated scalar functions of Gen/Prims.lean (tools/ssagen's table): full Go name -> Lean name
var prims = map[string]string{
	"(github.com/gebn/bmc/pkg/ipmi.CompletionCode).IsTemporary": "Bmc.Gen.ccIsTemporary",
	"(github.com/gebn/bmc/pkg/ipmi.SlaveAddress).Address":       "Bmc.Gen.slaveAddress",
	"(github.com/gebn/bmc/pkg/ipmi.SoftwareID).Address":         "Bmc.Gen.swidAddress",
	"github.com/gebn/bmc.isResponseTo":                          "Bmc.Gen.isResponseTo",
}

func (f *fnCtx) calledFunc(c *ast.CallExpr) *types.Func {
	switch fun := c.Fun.(type) {
	case *ast.Ident:
		fn, _ := f.g.info.Uses[fun].(*types.Func)
		return fn
	case *ast.SelectorExpr:
		fn, _ := f.g.info.Uses[fun.Sel].(*types.Func)
		return fn
	}
	return nil
}

func bitvec(s, lt string) string { return s + ".toBitVec" }

// call: the calls that are values
func (f *fnCtx) call(c *ast.CallExpr, r *rd) (string, string) {
	g := f.g
	// error(nil)
	if tv, ok := g.info.Types[c.Fun]; ok && tv.IsType() && isError(tv.Type) && len(c.Args) == 1 {
		if id, ok := c.Args[0].(*ast.Ident); ok && id.Name == "nil" {
			return "none", "Option GoErr"
		}
	}
	if s, rt, ok := f.getter(c); ok {
		if _, isPtr := rt.Underlying().(*types.Pointer); isPtr {
			g.fail(c, "a pointer obtained from a getter used as a value")
		}
		return s, g.leanType(rt)
	}
	fn := f.calledFunc(c)
	if fn == nil {
		g.fail(c, "call outside the language: %s", types.ExprString(c))
	}
	full := fn.FullName()
	se, _ := c.Fun.(*ast.SelectorExpr)
	switch {
	case full == "fmt.Errorf" || full == "errors.New":
		// the message is not modelled; its arguments must be reads without effect
		for _, a := range c.Args[1:] {
			f.pureRead(a)
		}
		if len(c.Args) == 0 {
			g.fail(c, "fmt.Errorf without a format")
		}
		if tv := g.info.Types[c.Args[0]]; tv.Value == nil {
			f.pureRead(c.Args[0])
		}
		return "(some GoErr.errorf)", "Option GoErr"
	case full == "(*github.com/google/gopacket/layers.BaseLayer).LayerPayload" && se != nil && len(c.Args) == 0:
		if path, ok := f.recvPath(se.X); ok && len(path) == 1 {
			if l, ok := f.layerOf(path[0]); ok {
				r.used = true
				return r.cell + ".layers." + l.lean + ".payload", "Bytes"
			}
		}
	case prims[full] != "" && fn.Type().(*types.Signature).Recv() != nil && se != nil && len(c.Args) == 0:
		// a value-receiver method of a scalar type, regenerated by ssagen
		s, t := f.expr(se.X, r)
		if !strings.HasPrefix(t, "UInt") {
			g.fail(c, "receiver of %s", fn.Name())
		}
		rt := g.leanType(fn.Type().(*types.Signature).Results().At(0).Type())
		switch {
		case rt == "Bool":
			return "(" + prims[full] + " " + bitvec(s, t) + ")", "Bool"
		case strings.HasPrefix(rt, "UInt"):
			return "(" + rt + ".ofBitVec (" + prims[full] + " " + bitvec(s, t) + "))", rt
		}
	case full == "github.com/gebn/bmc.isResponseTo" && len(c.Args) == 2:
		// both parameters are pointers to structs of scalars that the function only reads (ssagen's condition): one argument per
		// field, in the order of the fields
		var args []string
		for _, a := range c.Args {
			var s, t string
			if u, ok := a.(*ast.UnaryExpr); ok && u.Op == token.AND {
				s, t = f.expr(u.X, r)
			} else if ca, ok := a.(*ast.CallExpr); ok {
				var rt types.Type
				var ok2 bool
				s, rt, ok2 = f.getter(ca)
				if !ok2 {
					g.fail(a, "argument of isResponseTo")
				}
				p, isPtr := rt.Underlying().(*types.Pointer)
				if !isPtr {
					g.fail(a, "argument of isResponseTo")
				}
				t = g.leanType(p.Elem())
			} else {
				g.fail(a, "argument of isResponseTo")
			}
			var n *types.Named
			for _, cand := range g.structSeen {
				if g.structLean(cand) == t {
					n = cand
				}
			}
			if n == nil {
				g.fail(a, "argument of isResponseTo of type %s", t)
			}
			st := n.Underlying().(*types.Struct)
			for i := 0; i < st.NumFields(); i++ {
				ft := g.leanType(st.Field(i).Type())
				if !strings.HasPrefix(ft, "UInt") {
					g.fail(a, "argument of isResponseTo: field %s", st.Field(i).Name())
				}
				args = append(args, bitvec("("+s+")."+fieldLean(st.Field(i)), ft))
			}
		}
		return "(" + prims[full] + " " + strings.Join(args, " ") + ")", "Bool"
	case se != nil && len(c.Args) == 0 && fn.Type().(*types.Signature).Recv() != nil:
		// a method without arguments of a read-only interface field of the receiver, returning a gopacket.LayerType
		// (`s.confidentialityLayer.LayerType()`): constant during a call
		if path, ok := f.recvPath(se.X); ok && len(path) == 1 && isInterface(path[0].Type()) {
			if _, isL := f.layerOf(path[0]); !isL {
				res := fn.Type().(*types.Signature).Results()
				if res.Len() == 1 && isNamed(res.At(0).Type(), "github.com/google/gopacket", "LayerType") {
					return f.recvConst(leanField(path[0].Name())+"_"+fn.Name(), "Opaque",
						"`"+f.recv.Name()+"."+path[0].Name()+"."+fn.Name()+"()`"), "Opaque"
				}
			}
		}
	}
	g.fail(c, "call outside the language: %s", types.ExprString(c))
	return "", ""
}

// pureRead: an expression that only reads (an argument of fmt.Errorf): field paths, getters, dereferences, constants, locals
func (f *fnCtx) pureRead(e ast.Expr) {
	switch x := e.(type) {
	case *ast.ParenExpr:
		f.pureRead(x.X)
		return
	case *ast.StarExpr:
		f.pureRead(x.X)
		return
	case *ast.BasicLit:
		return
	case *ast.Ident:
		if _, ok := f.locals[f.g.info.Uses[x]]; ok {
			return
		}
		if tv, ok := f.g.info.Types[x]; ok && tv.Value != nil {
			return
		}
	case *ast.SelectorExpr:
		if _, ok := f.recvPath(x); ok {
			return
		}
		if tv, ok := f.g.info.Types[x]; ok && tv.Value != nil {
			return
		}
	case *ast.CallExpr:
		if _, _, ok := f.getter(x); ok {
			return
		}
	}
	f.g.fail(e, "argument of an error message that is not a plain read: %s", types.ExprString(e))
}
