package main

// loopgen: translate the RETRY LOOPS of package bmc — V2Session.buildAndSend, V2Sessionless.buildAndSendCommand,
// V2Sessionless.buildAndSendPayload and the two SendCommand wrappers around them — from the Go source (go/ast + go/types)
// into Lean 4 definitions (lean/Bmc/Gen/Loops.lean), STATEMENT BY STATEMENT, over the state monad of Basic/GoOrch.lean and
// the support definitions of Basic/GoLoops.lean.
//
// What the code does with its surroundings goes through PARAMETERS (the generated structure `World`): gopacket.SerializeLayers,
// transport.Send, the connection's DecodingLayerFunc and DecodedTypes.InnermostEquals, the back-off's verdict after a failed
// attempt, the DecodeFromBytes of the response layer. The Prometheus calls are events appended to a log. The connection's own
// mutable state (the layer structs, AuthenticatedSequenceNumbers.Inbound, the serialise buffer, the decoded layer types) is the
// generated record `Conn`. A closure handed to backoff.Retry becomes its own definition taking and returning the captured
// variables it assigns.
//
// usage: loopgen <repo-dir> > lean/Bmc/Gen/Loops.lean
//
// The statement language is described in DESIGN.md §2.2 (T2g) and at the head of fn.go / expr.go. The translator never guesses:
// a statement or expression outside its language makes it give up on the whole function, with the reason recorded in the
// output (`-- loopgen: gave up on F: file:line: reason`, `def gaveUp`). Output is deterministic.

import (
	"fmt"
	"go/ast"
	"go/token"
	"go/types"
	"os"
	"sort"
	"strings"

	"golang.org/x/tools/go/packages"
)

type giveUp struct{ msg string }

const modPath = "github.com/gebn/bmc"

// gen is the global state of one run
type gen struct {
	pkg     *packages.Package
	mods    []*packages.Package // every package of the module that was loaded
	info    *types.Info
	fset    *token.FileSet
	funcs   map[string]*ast.FuncDecl // "f" or "T.m" (non-test files of package bmc)
	mutated map[types.Object]string  // package-level variables written / address taken somewhere in the module -> where

	// what the translated functions mention (reset between the rounds)
	structSeen  []*types.Named
	structDone  map[*types.Named]bool
	layerFields []layerField
	layerTys    []string
	consts      map[string][]field // receiver type -> read-only fields it reads
	constOrder  []string
	ifaces      map[string][]field // interface parameter type -> methods called (taken to be getters)
	ifaceOrder  []string
	pkgDefs     []string // definitions for package-level variables and helper functions, in order of first use
	pkgDefSeen  map[string]bool
	done        map[string]*fnInfo // translated functions by key
}

type layerField struct {
	lean   string // field of `Layers` / constructor of `LayerArg`
	tyLean string // the Lean structure
	named  *types.Named
}

type field struct {
	lean, ty, doc string
}

type fnInfo struct {
	lean      string
	usesFuel  bool
	usesRecv  bool
	usesIface bool
}

type item struct {
	name  string // "bmc.V2Session.buildAndSend"
	key   string // key into gen.funcs
	needs []string
}

var items = []item{
	{name: "bmc.V2Session.buildAndSend", key: "V2Session.buildAndSend"},
	{name: "bmc.V2Session.SendCommand", key: "V2Session.SendCommand", needs: []string{"V2Session.buildAndSend"}},
	{name: "bmc.V2Sessionless.buildAndSendCommand", key: "V2Sessionless.buildAndSendCommand"},
	{name: "bmc.V2Sessionless.SendCommand", key: "V2Sessionless.SendCommand", needs: []string{"V2Sessionless.buildAndSendCommand"}},
	{name: "bmc.V2Sessionless.buildAndSendPayload", key: "V2Sessionless.buildAndSendPayload"},
}

func main() {
	dir := "/repo"
	if len(os.Args) > 1 {
		dir = os.Args[1]
	}
	cfg := &packages.Config{Mode: packages.LoadAllSyntax, Dir: dir, Env: append(os.Environ(), "GOFLAGS=-mod=mod", "GOPROXY=off")}
	pkgs, err := packages.Load(cfg, "./...")
	if err != nil || packages.PrintErrors(pkgs) > 0 {
		fmt.Fprintln(os.Stderr, "loopgen: cannot load the module", modPath, err)
		os.Exit(2)
	}
	g := &gen{funcs: map[string]*ast.FuncDecl{}}
	seen := map[string]bool{}
	var visit func(p *packages.Package)
	visit = func(p *packages.Package) {
		if seen[p.PkgPath] {
			return
		}
		seen[p.PkgPath] = true
		if p.PkgPath == modPath || strings.HasPrefix(p.PkgPath, modPath+"/") {
			g.mods = append(g.mods, p)
		}
		if p.PkgPath == modPath {
			g.pkg = p
		}
		for _, q := range p.Imports {
			visit(q)
		}
	}
	for _, p := range pkgs {
		visit(p)
	}
	sort.Slice(g.mods, func(i, j int) bool { return g.mods[i].PkgPath < g.mods[j].PkgPath })
	if g.pkg == nil {
		fmt.Fprintln(os.Stderr, "loopgen: package", modPath, "not found")
		os.Exit(2)
	}
	p := g.pkg
	g.info, g.fset = p.TypesInfo, p.Fset
	for _, f := range p.Syntax {
		if strings.HasSuffix(p.Fset.Position(f.Pos()).Filename, "_test.go") {
			continue
		}
		for _, d := range f.Decls {
			fd, ok := d.(*ast.FuncDecl)
			if !ok || fd.Body == nil {
				continue
			}
			key := fd.Name.Name
			if fd.Recv != nil && len(fd.Recv.List) == 1 {
				t := fd.Recv.List[0].Type
				if st, ok := t.(*ast.StarExpr); ok {
					t = st.X
				}
				if id, ok := t.(*ast.Ident); ok {
					key = id.Name + "." + key
				}
			}
			g.funcs[key] = fd
		}
	}
	g.findMutated()

	// round 1: which items are inside the language (an item that needs one that gave up gives up too)
	reasons := map[string]string{}
	g.reset()
	for _, it := range items {
		_, reason := g.translate(it)
		if reason != "" {
			reasons[it.key] = reason
		}
	}
	// round 2: only the translatable ones contribute structures, parameters and definitions
	g.reset()
	var bodies, translated, gaveUpList, comments []string
	for _, it := range items {
		if r := reasons[it.key]; r != "" {
			gaveUpList = append(gaveUpList, it.name)
			comments = append(comments, fmt.Sprintf("-- loopgen: gave up on %s: %s", it.name, r))
			continue
		}
		text, reason := g.translate(it)
		if reason != "" {
			fmt.Fprintln(os.Stderr, "loopgen: internal: second round failed for", it.name, reason)
			os.Exit(2)
		}
		bodies = append(bodies, text)
		translated = append(translated, it.name)
	}

	var out strings.Builder
	out.WriteString(header)
	for _, c := range comments {
		out.WriteString(c + "\n")
	}
	out.WriteString("\n")
	out.WriteString(g.structDecls())
	out.WriteString(g.stateDecls())
	for _, d := range g.pkgDefs {
		out.WriteString(d)
		out.WriteString("\n")
	}
	for _, b := range bodies {
		out.WriteString(b)
		out.WriteString("\n")
	}
	out.WriteString("def translated : List String := [" + quoteJoin(translated) + "]\n")
	out.WriteString("def gaveUp : List String := [" + quoteJoin(gaveUpList) + "]\n")
	out.WriteString("\nend Bmc.Gen.Loops\n")
	fmt.Print(out.String())
	if len(gaveUpList) > 0 {
		// (exit status 0, like the other translators: what was given up is recorded in the file, `translated_ok` / `gaveUp_none`
		// of Proofs/GenLoops/TranslatedOk.lean and the theorems about the missing definitions then fail)
		fmt.Fprintln(os.Stderr, "loopgen: "+strings.Join(comments, " | "))
	}
}

const header = `-- GENERATED by loopgen from the Go sources (v2session.go, v2sessionless.go); do not edit.
--
-- The bodies of the retry loops, statement by statement, in the state monad ` + "`GoOrch.M (σ × Conn τ)`" + `:
--   * σ (a type parameter) is the state of the SURROUNDINGS - the transport with the BMC behind it, crypto/rand, the caller's
--     context, the clock. Everything the code does with them is a field of ` + "`World`" + `:
--       serializeLayers  gopacket.SerializeLayers(s.buffer, opts, layers…) : the layer structs afterwards (SerializeTo assigns
--                        lengths, checksums, pad, signature), what the buffer holds afterwards, "the error is nil";
--       transportSend    s.transport.Send(requestCtx, bytes) under the per-attempt context.WithTimeout(ctx, s.timeout) / cancel()
--                        pair (checked to enclose exactly this call; deadlines are not modelled): a reply, or none = an error;
--       decode           s.decode(response, &s.layers): the layer structs and the decoded layer types afterwards, and how it ended;
--       innermostEquals  layerexts.DecodedTypes(s.layers).InnermostEquals(T): "the error is nil";
--       backoffWait      what backoff.Retry does between two attempts (GoLoops.backoffRetry): again / the context is done / the policy gave up;
--       decodeFromBytes  x.DecodeFromBytes(payload, gopacket.NilDecodeFeedback) of the response layer of the command / payload
--                        (an interface value): "the error is nil" (what it stores in the caller's response struct is not modelled).
--   * ` + "`Conn τ`" + ` is the connection's own mutable state: the layer structs the code mentions (by type), the decoded layer types
--     (τ: whatever ` + "`decode`" + ` leaves in s.layers), AuthenticatedSequenceNumbers.Inbound, what s.buffer.Bytes() returns, and the
--     log of Prometheus calls (` + "`Ev`" + `). The translator REFUSES any other write to a field of the receiver, any other write of the
--     counter than ` + "`++`" + `, any other use of the transport, the buffer, the context or the receiver itself.
--   * read-only fields of the receiver are the fields of ` + "`…Consts`" + `; the methods of the ipmi.Command / ipmi.Payload parameter are
--     taken to be GETTERS (same value on every call, no effect): the fields of ` + "`ipmi_Command`" + ` / ` + "`ipmi_Payload`" + `. Interface values and
--     gopacket.LayerType numbers are ` + "`Opaque`" + ` (0 = nil / zero): only copied, compared with nil, handed to the surroundings.
--   * Go errors are ` + "`Option GoErr`" + ` (where the error came from); a struct literal assigns EVERY field (the Lean structures list all
--     fields of the Go structs, BaseLayer flattened to contents / payload; defaults = Go zero values).
--   * a closure handed to backoff.Retry is its own definition ` + "`F_funcN`" + `: it takes and returns the captured variables it assigns.
import Bmc.Basic.GoLoops
import Bmc.Gen.Prims
namespace Bmc.Gen.Loops
open Bmc Bmc.GoOrch Bmc.GoLoops

`

func (g *gen) reset() {
	g.structSeen = nil
	g.structDone = map[*types.Named]bool{}
	g.layerFields = nil
	g.layerTys = nil
	g.consts = map[string][]field{}
	g.constOrder = nil
	g.ifaces = map[string][]field{}
	g.ifaceOrder = nil
	g.pkgDefs = nil
	g.pkgDefSeen = map[string]bool{}
	g.done = map[string]*fnInfo{}
}

func (g *gen) translate(it item) (text string, reason string) {
	defer func() {
		if r := recover(); r != nil {
			if gu, ok := r.(giveUp); ok {
				text, reason = "", gu.msg
				return
			}
			panic(r)
		}
	}()
	fd, ok := g.funcs[it.key]
	if !ok {
		panic(giveUp{"function not found in package bmc"})
	}
	for _, n := range it.needs {
		if _, ok := g.done[n]; !ok {
			panic(giveUp{"needs " + n + ", which was not translated"})
		}
	}
	text = g.function(it, fd)
	return text, ""
}

func quoteJoin(l []string) string {
	q := make([]string, len(l))
	for i, s := range l {
		q[i] = fmt.Sprintf("%q", s)
	}
	return strings.Join(q, ", ")
}

func shortFile(p string) string {
	if i := strings.Index(p, "/pkg/"); i >= 0 {
		return p[i+1:]
	}
	return p[strings.LastIndex(p, "/")+1:]
}

func (g *gen) pos(n ast.Node) string {
	p := g.fset.Position(n.Pos())
	return fmt.Sprintf("%s:%d", shortFile(p.Filename), p.Line)
}

func (g *gen) fail(n ast.Node, format string, a ...interface{}) {
	panic(giveUp{g.pos(n) + ": " + fmt.Sprintf(format, a...)})
}

// findMutated: the package-level variables of the module that are assigned (also an element or a field), incremented, or
// whose address is taken anywhere in the module (outside their own declaration)
func (g *gen) findMutated() {
	g.mutated = map[types.Object]string{}
	for _, p := range g.mods {
		info := p.TypesInfo
		root := func(e ast.Expr) types.Object {
			for {
				switch x := e.(type) {
				case *ast.ParenExpr:
					e = x.X
				case *ast.IndexExpr:
					e = x.X
				case *ast.StarExpr:
					e = x.X
				case *ast.SelectorExpr:
					if id, ok := x.X.(*ast.Ident); ok {
						if _, isPkg := info.Uses[id].(*types.PkgName); isPkg {
							return info.Uses[x.Sel]
						}
					}
					if sel := info.Selections[x]; sel != nil && sel.Kind() == types.FieldVal {
						e = x.X
						continue
					}
					return nil
				case *ast.Ident:
					return info.Uses[x]
				default:
					return nil
				}
			}
		}
		mark := func(e ast.Expr, n ast.Node) {
			o := root(e)
			if v, ok := o.(*types.Var); ok && v.Pkg() != nil && v.Parent() == v.Pkg().Scope() {
				if _, dup := g.mutated[o]; !dup {
					pp := p.Fset.Position(n.Pos())
					g.mutated[o] = fmt.Sprintf("%s:%d", shortFile(pp.Filename), pp.Line)
				}
			}
		}
		for _, f := range p.Syntax {
			ast.Inspect(f, func(n ast.Node) bool {
				switch x := n.(type) {
				case *ast.AssignStmt:
					if x.Tok != token.DEFINE {
						for _, l := range x.Lhs {
							mark(l, x)
						}
					}
				case *ast.IncDecStmt:
					mark(x.X, x)
				case *ast.UnaryExpr:
					if x.Op == token.AND {
						mark(x.X, x)
					}
				case *ast.RangeStmt:
					if x.Tok == token.ASSIGN {
						if x.Key != nil {
							mark(x.Key, x)
						}
						if x.Value != nil {
							mark(x.Value, x)
						}
					}
				}
				return true
			})
		}
	}
}

// ---- output of the collected declarations ----------------------------------------------------------------------------

func (g *gen) stateDecls() string {
	var b strings.Builder
	b.WriteString("/-- the layer structs of the connection (`v2ConnectionLayers`) the translated code mentions, one field per struct TYPE -/\nstructure Layers where\n")
	for _, l := range g.layerFields {
		fmt.Fprintf(&b, "  %s : %s := {}\n", l.lean, l.tyLean)
	}
	b.WriteString("  deriving Repr, DecidableEq\n\n")
	b.WriteString(`/-- the connection's own mutable state -/
structure Conn (τ : Type) where
  layers : Layers := {}
  decoded : τ                  -- ` + "`s.layers`" + `: the layer types the last decode went through
  inbound : UInt32 := 0        -- ` + "`s.AuthenticatedSequenceNumbers.Inbound`" + `
  buffer : Bytes := []         -- what ` + "`s.buffer.Bytes()`" + ` returns
  events : List Ev := []       -- the Prometheus calls so far, in order

/-- a layer handed to ` + "`gopacket.SerializeLayers`" + ` -/
inductive LayerArg where
`)
	for _, l := range g.layerFields {
		fmt.Fprintf(&b, "  | %s                  -- `&s.<the %s>`\n", l.lean, l.tyLean)
	}
	b.WriteString("  | iface (v : Opaque)     -- an interface value holding a layer\n  | payloadNil             -- `gopacket.Payload(nil)`\n  deriving Repr, DecidableEq\n\n")
	b.WriteString("/-- the layer types compared with the innermost decoded one -/\ninductive LayerTy where\n")
	for _, t := range g.layerTys {
		fmt.Fprintf(&b, "  | %s\n", t)
	}
	b.WriteString("  deriving Repr, DecidableEq\n\n")
	b.WriteString(`/-- the surroundings (see the head of this file) -/
structure World (σ τ : Type) where
  serializeLayers : σ → SerializeOptions → Layers → List LayerArg → σ × Layers × Bytes × Bool
  transportSend : σ → Bytes → σ × Option Bytes
  decode : Layers → τ → Bytes → Layers × τ × DecodeOutcome
  innermostEquals : τ → LayerTy → Bool
  backoffWait : σ → σ × Wait
  decodeFromBytes : Opaque → Bytes → Bool

/-- ` + "`gopacket.SerializeLayers(s.buffer, opts, layers…)`" + `: the error -/
def serializeLayers {σ τ : Type} (W : World σ τ) (opts : SerializeOptions) (args : List LayerArg) : M (σ × Conn τ) (Option GoErr) :=
  callW (fun w k =>
    let r := W.serializeLayers w opts k.layers args
    (r.1, { k with layers := r.2.1, buffer := r.2.2.1 }, if r.2.2.2 then none else some GoErr.serialize))

/-- ` + "`requestCtx, cancel := context.WithTimeout(ctx, s.timeout); response, err := s.transport.Send(requestCtx, b); cancel()`" + ` -/
def transportSend {σ τ : Type} (W : World σ τ) (b : Bytes) : M (σ × Conn τ) (Bytes × Option GoErr) :=
  callW (fun w k =>
    let r := W.transportSend w b
    (r.1, k, match r.2 with | some d => (d, none) | none => ([], some GoErr.transport)))

/-- ` + "`_, err := s.decode(response, &s.layers)`" + `: the error; a panicking layer panics -/
def decodeLayers {σ τ : Type} (W : World σ τ) (response : Bytes) : M (σ × Conn τ) (Option GoErr) :=
  callP (fun k =>
    let r := W.decode k.layers k.decoded response
    ({ k with layers := r.1, decoded := r.2.1 },
     match r.2.2 with | .ok => some none | .err => some (some GoErr.decode) | .panic => none))

/-- ` + "`types.InnermostEquals(T)`" + `: the error -/
def innermostEquals {σ τ : Type} (W : World σ τ) (types : τ) (t : LayerTy) : Option GoErr :=
  if W.innermostEquals types t then none else some GoErr.innermost

/-- ` + "`x.DecodeFromBytes(payload, gopacket.NilDecodeFeedback)`" + ` on an interface value: the error -/
def decodeFromBytes {σ τ : Type} (W : World σ τ) (x : Opaque) (payload : Bytes) : Option GoErr :=
  if W.decodeFromBytes x payload then none else some GoErr.response

/-- a Prometheus call -/
def event {σ τ : Type} (e : Ev) : M (σ × Conn τ) Unit :=
  modifyCell (fun k => { k with events := k.events ++ [e] })

`)
	for _, r := range g.constOrder {
		fmt.Fprintf(&b, "/-- the fields of the receiver `*%s` the translated code only READS (constant during a call) -/\nstructure %sConsts where\n", r, r)
		for _, f := range g.consts[r] {
			fmt.Fprintf(&b, "  %s : %s      -- %s\n", f.lean, f.ty, f.doc)
		}
		b.WriteString("  deriving Repr, DecidableEq\n\n")
	}
	for _, r := range g.ifaceOrder {
		fmt.Fprintf(&b, "/-- what the methods of the `%s` parameter return (taken to be getters) -/\nstructure %s where\n", strings.Replace(r, "_", ".", 1), r)
		for _, f := range g.ifaces[r] {
			fmt.Fprintf(&b, "  %s : %s      -- %s\n", f.lean, f.ty, f.doc)
		}
		b.WriteString("  deriving Repr, DecidableEq\n\n")
	}
	return b.String()
}
