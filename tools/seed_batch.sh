#!/bin/sh
# seed_batch.sh <outdir> <src:id> ...   — for use under `vp run`: builds the framework in this snapshot, imports each
# seeded change (confirmation + all checks through VERIF_REPO worktrees) and copies seeded/<id>/ to <outdir>.
# SEED_PROPS="C16 C17 …" restricts the checks run against each change (the meta.json records which ones ran).
set -e
cd "$(dirname "$0")/.."
out=$1; shift
./setup.sh > setup.log 2>&1 || { tail -30 setup.log; exit 2; }
mkdir -p "$out"
for pair in "$@"; do
  src=${pair%%:*}; id=${pair##*:}
  echo "=== $id from $src"
  python3 tools/seed_import.py "$src" "$id" $SEED_PROPS || echo "IMPORT FAILED $id"
  [ -d seeded/$id ] && cp -r seeded/$id "$out/"
done
echo batch done
